#!/usr/bin/env python3
"""mkseedtasks.py <round> — maintenance helper: creates a scratch worktree /tmp/seed<round>/<ID> of /repo HEAD per property
with a TASK.md for a sub-agent (property text only, nothing from /verif). Earlier seeds' locations are named so that a new
seed targets a different mechanism."""
import json, os, subprocess, sys
rnd = sys.argv[1]
avoid = {
 'C01': 'engine/seminaivebottomup.go makeDeltaRules (delta rules for repeated predicates)',
 'C02': 'rewrite/rewrite.go nameGen.freshPredicateName',
 'C03': 'analysis/stratification.go makeDepGraph (edge already recorded)',
 'C04': 'analysis/rulecheck.go CheckRule (variables of built-in atoms)',
 'C05': 'factstore/interval_tree.go rotateRight',
 'C06': 'factstore/factstore.go MultiIndexedArrayInMemoryStore.GetFacts',
 'C07': 'builtin/builtin.go integer comparisons through float64',
 'C08': 'ast/ast.go keysorter.Less',
 'C09': 'ast/ast.go FormatFloat64',
 'C10': 'functional/functional.go evalDiv',
 'C11': 'analysis/infercontext.go inferState.makeNext',
 'C12': 'symbols/symbols.go isBuiltinTypeName',
 'C13': 'factstore/interval_tree.go findExact',
 'C14': 'factstore/interval_tree.go queryRange',
 'C15': 'provenance/provenance.go explainer.explain (cutLog in the condFail shortcut)',
 'C16': 'interpreter/interpreter.go Define (copy of knownPredicates)',
 'C17': 'engine/seminaivebottomup.go mergeDelta / total fact limit check',
 'C18': 'factstore/factstore.go ConcurrentFactStore.Merge',
 'C19': 'factstore/simplecolumn.go readPred (filter fast path)',
 'C20': 'engine/seminaivebottomup.go makeDeltaRules',
}
# earlier rounds: add the mechanisms of every stored seed of that property
for sid in sorted(os.listdir('/verif/seeded')):
    d = f'/verif/seeded/{sid}'
    if not os.path.isdir(d) or '-' not in sid: continue
    base = sid.split('-')[0]
    if os.path.exists(f'{d}/about.json'):
        avoid[base] += '; ' + json.load(open(f'{d}/about.json'))['changed']
props = {}
for l in open('/verif/properties.jsonl'):
    d = json.loads(l); props[d['id']] = d
root = f'/tmp/seed{rnd}'
os.makedirs(root, exist_ok=True)
for pid, d in sorted(props.items()):
    wt = f'{root}/{pid}'
    if not os.path.exists(wt):
        subprocess.check_call(['git', '-C', '/repo', 'worktree', 'add', '-q', '--detach', wt, 'HEAD'])
    text = f"""You are working in a scratch git worktree of a Go project at {wt} (module codeberg.org/TauCeti/mangle-go: "Mangle", a Datalog-extension language implemented as a Go library: parser, static analysis, stratification, semi-naive bottom-up engine, fact stores, provenance, interpreter). Work ONLY inside {wt}. Do not read or touch /verif, /repo or other directories under /tmp.

Environment for every shell command: `export GOFLAGS=-mod=mod GOPROXY=off` (do NOT set GOSUMDB=off; there is no network). The existing test suite is run with: `cd {wt} && GOFLAGS=-mod=mod GOPROXY=off go test -vet=off -count=1 ./...` (takes a few seconds).

Here is a semantic property that the library is supposed to satisfy:

---
{pid} — {d['title']}

{d['statement']}

Quantified over: {d['quantifier']['text']}
---

Your task: produce a realistic change (a plausible bug a developer could introduce, e.g. during a refactor or optimisation) to the library's NON-TEST source code that BREAKS this property, while the project still compiles and the ENTIRE existing test suite still passes. The change must need something specific to manifest — a particular interleaving, a fault at a particular point, a multi-step sequence of operations, an unusual input, a particular configuration, or two cooperating code sites that each look fine alone — NOT something that ordinary use or the existing tests would expose at once. Keep the change small (a few lines) and subtle. Do not touch files whose name contains "verif" and do not edit existing tests.

Earlier exercises of this kind already changed: {avoid[pid]}. Pick a DIFFERENT mechanism, preferably in a different function or file, and a different clause of the property if it has several.

Also write a demonstration: a new Go test file (name it seed_demo_test.go, put it in the most suitable existing package directory; use an external test package name such as `engine_test` if that avoids import cycles) that FAILS with your change and PASSES without it. Verify both directions yourself (e.g. `git diff -- <source files> > patch.diff; git checkout -- <source files>; run demo; git apply patch.diff; run demo`). The demo should be deterministic (if the property is about concurrency, make the demo as reliable as you can, e.g. by repetition or `-race`, and say how reliable it is).

Deliverables, all inside {wt}:
1. the source change left applied (uncommitted) in the worktree;
2. `patch.diff` in the worktree root containing ONLY the source change (output of `git diff -- <changed source files>`; not the demo test, not the notes);
3. the demo test file;
4. `SEED_NOTES.md` in the worktree root: which file/function you changed and how, why it violates the property, what exactly is needed for the violation to manifest, the exact command that runs the demo, and confirmation that (a) the full suite passes with the change, (b) the demo fails with the change, (c) the demo passes without it.

Finish by replying with a short summary (changed file, trigger condition, demo command).
"""
    open(f'{wt}/TASK.md', 'w').write(text)
    print('ready', wt)
