#!/usr/bin/env python3
"""costtable.py — maintenance helper: refreshes the quick-tier columns (evaluations, distinct non-trivial, wall) of the cost
table in DESIGN.md section 8 from /verif/evidence/<id>.json (as left by the last quick sweep)."""
import json, re
p = '/verif/DESIGN.md'
s = open(p).read()
def fmt(n): return f'{n:,}'.replace(',', ' ')
out = []
for line in s.split('\n'):
    m = re.match(r'^\| (C\d\d) \| (.*) \| ([\d ]+) \| ([\d ]+) \| (\d+) s \| (.*) \| (.*) \|$', line)
    if m:
        d = json.load(open(f'/verif/evidence/{m.group(1)}.json'))
        if d.get('tier') == 'quick':
            c = d['coverage']
            line = f"| {m.group(1)} | {m.group(2)} | {fmt(c['evaluations'])} | {fmt(c['distinct_nontrivial'])} | {round(d['wall_s'])} s | {m.group(6)} | {m.group(7)} |"
    out.append(line)
open(p, 'w').write('\n'.join(out))
