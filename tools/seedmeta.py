#!/usr/bin/env python3
"""seedmeta.py — writes /verif/seeded/<id>/meta.json from the table below plus seeded/RESULTS.tsv (maintenance helper)."""
import json, os, collections
M = {
 'C01': dict(changed='engine/seminaivebottomup.go makeDeltaRules: one delta rule per body predicate instead of per occurrence',
             needs='a non-linear rule (same recursive predicate twice in one body) where the fact matching the LATER occurrence is derived in a strictly later round than the one matching the first, and no alternative derivation exists (on(G) :- and_gate(G,A,B), on(A), on(B))'),
 'C02': dict(changed='rewrite/rewrite.go nameGen.freshPredicateName: value receiver, the counter never advances',
             needs='two or more aggregating rules with the same head, multi-atom bodies and equally many body variables in one stratum: they share one temporary relation and each reduces the union of both bodies'),
 'C03': dict(changed='analysis/stratification.go makeDepGraph: skips a mention when an edge for the pair is already recorded',
             needs='a pair of predicates mentioned positively first and aggregated/negated later (other rule), on a dependency cycle: the negative cycle is accepted'),
 'C04': dict(changed='analysis/rulecheck.go CheckRule: removed the sweep over all variables of a built-in atom',
             needs='a built-in premise whose argument is an expression (fn:plus(X,1) < 3) containing a variable that is only bound by a premise further right'),
 'C05': dict(changed='factstore/interval_tree.go rotateRight: updateMaxEnd(y) instead of (x)',
             needs='>= 3 validity intervals of one atom inserted latest-start-first (right rotation) and then a pruned range/point lookup inside the later intervals: results depend on base-fact order'),
 'C06': dict(changed='factstore/factstore.go MultiIndexedArrayInMemoryStore.GetFacts: after the index lookup only the arguments behind the indexed one are matched',
             needs='two facts whose constants at the indexed position are distinct but hash-equal (/a vs "/a", 1.0 vs 4607182418800017408) and a pattern query with a constant there'),
 'C07': dict(changed='builtin/builtin.go: integer :lt/:le/:gt/:ge compare through float64',
             needs='two distinct integers above 2^53 that round to the same float64'),
 'C08': dict(changed='ast/ast.go keysorter.Less: tie-break on Symbol instead of the printed form',
             needs='a map/struct with two distinct compound keys of the same shape and equal hash (fn:pair(1,"x") vs fn:pair(1+2^57,"x"), [1] vs [1+2^56]) supplied in different orders'),
 'C09': dict(changed='ast/ast.go FormatFloat64: integral floats printed through int64',
             needs='an integral float with |f| >= 2^63, or negative zero'),
 'C10': dict(changed='functional/functional.go evalDiv: multiplies all divisors into one int64 and divides once',
             needs='fn:div with >= 3 arguments whose non-zero divisors multiply to 0 mod 2^64 (fn:div(1, 4294967296, 4294967296)): integer divide by zero panic in analysis, evaluation or fact-file reading'),
 'C11': dict(changed='analysis/infercontext.go inferState.makeNext: successor states share the varTpe backing array',
             needs='a variable first bound through a wider predicate (/any) and then narrowed by a predicate with >= 2 declared bound rows, head declared with the first row only'),
 'C12': dict(changed='symbols/symbols.go isBuiltinTypeName: /time and /duration no longer count as built-in types',
             needs='/time or /duration meeting /name, a union containing it, or a name-prefix type below it (/time/zone)'),
 'C13': dict(changed='factstore/interval_tree.go findExact: plain descent, right on ties',
             needs='>= 3 intervals with equal start and different ends on one atom (rotation moves an equal-start node left), then re-adding the first: exact duplicate accepted'),
 'C14': dict(changed='factstore/interval_tree.go queryRange: left subtree pruned with maxEnd > start instead of >=',
             needs='an atom with >= 3 disjoint intervals and a diamond window whose early edge equals, to the nanosecond, the end of an interval sitting in a left subtree, no other interval overlapping'),
 'C15': dict(changed='provenance/provenance.go explainer.explain: the condFail shortcut no longer reports the cut goals to its caller',
             needs='mutual recursion over >= 3 predicates in a particular rule order inside one Explain call, so that a conditional failure is reused while the cut goal is still on the stack and poisons the unconditional cache'),
 'C16': dict(changed='interpreter/interpreter.go Define: analyses against the live knownPredicates map when no interactive definitions exist',
             needs='a loaded file that defines a predicate without Decl, no interactive definitions live, and a define text with an explicit Decl for that predicate (rejected or accepted-then-popped)'),
 'C17': dict(changed='engine/seminaivebottomup.go: total fact limit check moved into mergeDelta behind a grown flag that the merge-predicate branch never sets',
             needs='a created-fact limit and a program that grows only through a predicate declared with fundep + merge (lattice), fresh keys per round'),
 'C18': dict(changed='factstore/factstore.go ConcurrentFactStore.Merge: per-fact Add (lock per fact) instead of one locked base.Merge',
             needs='a Merge of >= 2 new facts racing with a reader scheduled between two of the per-fact adds; no data race, so -race is silent'),
 'C19': dict(changed='factstore/simplecolumn.go readPred: filtered columns compared as raw text before unescaping',
             needs='a lazy SimpleColumnStore query with a constant argument that is a top-level name containing % (/100%)'),
 'C20': dict(changed='engine/seminaivebottomup.go makeDeltaRules: a predicate already seen in the clause gets no second delta rule',
             needs='a non-linear rule over one recursive predicate where a later-round fact is usable only in a non-first occurrence (have(Z) :- have(X), have(Y), recipe(X,Y,Z))'),
}
props = {}
for l in open('/verif/properties.jsonl'):
    d = json.loads(l); props[d['id']] = d['title']
res = collections.defaultdict(list)
if os.path.exists('/verif/seeded/RESULTS.tsv'):
    for l in open('/verif/seeded/RESULTS.tsv'):
        f = l.rstrip('\n').split('\t')
        if len(f) >= 6:
            res[f[0]].append(dict(check=f[1], repo_head=f[2], exit=f[3], summary=f[4], signatures=f[5]))
extra = {}
if os.path.exists('/verif/seeded/META_EXTRA.json'):
    extra = json.load(open('/verif/seeded/META_EXTRA.json'))
for sid in sorted(os.listdir('/verif/seeded')):
    d = f'/verif/seeded/{sid}'
    if not os.path.isdir(d): continue
    base = sid.split('-')[0]
    m = dict(M.get(sid, {}))
    if os.path.exists(f'{d}/about.json'): m.update(json.load(open(f'{d}/about.json')))
    m.update(extra.get(sid, {}))
    demo = [f for f in os.listdir(d) if f.endswith('_seed_demo_test.go')]
    latest = {}
    for r in res.get(sid, []): latest[r['check']] = r
    meta = dict(id=sid, property=base, property_title=props.get(base, ''), source='fresh sub-agent given only the property text and a scratch worktree',
                changed=m.get('changed', ''), needs_to_manifest=m.get('needs', ''),
                demonstration=demo[0] if demo else None,
                demonstration_note='copy to <package dir>/seed_demo_test.go (file name = package dir + _seed_demo_test.go) and run go test -run SeedDemo ./<package dir>/',
                confirmed=['existing suite passes with the change (go test -vet=off -count=1 -skip SeedDemo ./...)', 'demonstration fails with the change', 'demonstration passes without it'],
                checks_run=sorted(latest.values(), key=lambda r: r['check']),
                caught_by=[r['check'] for r in latest.values() if r['exit'] == '1'],
                missed_by=[r['check'] for r in latest.values() if r['exit'] == '0'],
                strengthened=m.get('strengthened', ''))
    json.dump(meta, open(f'{d}/meta.json', 'w'), indent=1)
print('ok')
