#!/usr/bin/env python3
"""seedtable.py — maintenance helper: rewrites the table of seeded changes in DESIGN.md (between the SEEDED-TABLE markers) from seeded/*/meta.json."""
import json, os, re
rows = []
for sid in sorted(os.listdir('/verif/seeded'), key=lambda s: (s.split('-')[0], s)):
    f = f'/verif/seeded/{sid}/meta.json'
    if not os.path.exists(f): continue
    m = json.load(open(f))
    def sigs(r):
        s = r.get('signatures', '').strip()
        s = ' '.join(s.split()[:3])
        return s
    caught = '; '.join(f"{r['check']}: {sigs(r)}" for r in m['checks_run'] if r['exit'] == '1')
    missed = ', '.join(r['check'] for r in m['checks_run'] if r['exit'] == '0')
    esc = lambda s: (s or '').replace('|', '\\|').replace('\n', ' ')
    rows.append(f"| {sid} | {esc(m['changed'])} | {esc(m['needs_to_manifest'])} | {esc(caught) or '—'} | {esc(missed) or '—'} | {esc(m.get('strengthened',''))} |")
table = "| seed | change | needs | caught by (quick tier, seed 1: signatures with case counts) | also run, silent | strengthening it prompted |\n|---|---|---|---|---|---|\n" + '\n'.join(rows)
p = '/verif/DESIGN.md'
s = open(p).read()
a, b = '<!-- SEEDED-TABLE -->', '<!-- /SEEDED-TABLE -->'
if b not in s:
    s = s.replace(a, a + '\n' + b)
i, j = s.index(a), s.index(b)
s = s[:i + len(a)] + '\n' + table + '\n' + s[j:]
open(p, 'w').write(s)
print(len(rows), 'rows')
