#!/bin/bash
# run.sh <ID> <quick|thorough>   |  run.sh replay <file>  |  run.sh build
# Rebuilds vcheck from /repo's current working tree with -tags verif, runs one check.
set -u
VERIF="$(cd "$(dirname "$0")" && pwd)"
export GOFLAGS=-mod=mod GOPROXY=off GOTOOLCHAIN=auto
unset GOSUMDB
export GOCACHE="${GOCACHE:-$HOME/.cache/go-build}"
SEED="${VERIF_SEED:-1}"
BIN="$VERIF/bin"
mkdir -p "$BIN" "$VERIF/evidence" "$VERIF/replays" "$VERIF/work"

build() { # $1 = output, extra flags follow
  local out="$1"; shift
  (cd "$VERIF/harness" && cat /repo/go.sum go.sum.extra 2>/dev/null | sort -u > go.sum; go build -tags verif "$@" -o "$out" ./cmd/vcheck) 2>"$VERIF/work/build.$$.log"
  local rc=$?
  if [ $rc -ne 0 ]; then
    echo "BUILD FAILED (harness or /repo does not compile with -tags verif):" >&2
    cat "$VERIF/work/build.$$.log" >&2
  fi
  rm -f "$VERIF/work/build.$$.log"
  return $rc
}

cmd="${1:-}"
case "$cmd" in
  build)
    build "$BIN/vcheck" || exit 2
    build "$BIN/vcheck-race" -race || exit 2
    exit 0 ;;
  replay)
    build "$BIN/vcheck" || exit 2
    exec "$BIN/vcheck" -verif "$VERIF" -replay "$2" ;;
  C[0-9][0-9])
    tier="${2:-${VERIF_TIER:-quick}}"
    shift; shift || true
    if [ "$cmd" = "C18" ]; then
      build "$BIN/vcheck-race" -race || exit 2
      exec "$BIN/vcheck-race" -verif "$VERIF" -prop "$cmd" -tier "$tier" -seed "$SEED" "$@"
    fi
    build "$BIN/vcheck" || exit 2
    exec "$BIN/vcheck" -verif "$VERIF" -prop "$cmd" -tier "$tier" -seed "$SEED" "$@" ;;
  *)
    echo "usage: run.sh <C01..C20> <quick|thorough> | replay <file> | build" >&2; exit 2 ;;
esac
