#!/bin/bash
# run.sh <ID> <quick|thorough>   |  run.sh replay <file>  |  run.sh build
# Rebuilds vcheck from /repo's current working tree with -tags verif, runs one check.
set -u
VERIF="$(cd "$(dirname "$0")" && pwd)"
export GOFLAGS=-mod=mod GOPROXY=off GOTOOLCHAIN=auto
unset GOSUMDB
export GOCACHE="${GOCACHE:-$HOME/.cache/go-build}"
SEED="${VERIF_SEED:-1}"
BIN="$VERIF/bin"
mkdir -p "$BIN" "$VERIF/evidence" "$VERIF/replays" "$VERIF/work"

# VERIF_REPO (default /repo): an alternative mangle-go tree, used only by background sweeps that must not be
# disturbed by edits to /repo (vp run --with-repo); the registered checks always build from /repo.
REPO="${VERIF_REPO:-/repo}"
MODFLAG=""
[ "$REPO" != "/repo" ] && MODFLAG="-modfile=$VERIF/work/alt.go.mod"
build() { # $1 = output, extra flags follow
  local out="$1"; shift
  if [ "$REPO" != "/repo" ]; then
    local mod="$VERIF/work/alt.go.mod"
    sed "s#=> /repo#=> $REPO#" "$VERIF/harness/go.mod" > "$mod"
    cat "$REPO/go.sum" "$VERIF/harness/go.sum.extra" 2>/dev/null | sort -u > "$VERIF/work/alt.go.sum"
    (cd "$VERIF/harness" && go build -tags verif "$@" -modfile="$mod" -o "$out" ./cmd/vcheck) 2>"$VERIF/work/build.$$.log"
  else
  (cd "$VERIF/harness" && cat /repo/go.sum go.sum.extra 2>/dev/null | sort -u > go.sum; go build -tags verif "$@" -o "$out" ./cmd/vcheck) 2>"$VERIF/work/build.$$.log"
  fi
  local rc=$?
  if [ $rc -ne 0 ]; then
    echo "BUILD FAILED (harness or /repo does not compile with -tags verif):" >&2
    cat "$VERIF/work/build.$$.log" >&2
  fi
  rm -f "$VERIF/work/build.$$.log"
  return $rc
}

# Coverage-guided fuzzing of the front end (C10 thorough): execution-count budget, not time.
fuzz_c10() {
  local execs="${VERIF_FUZZ_EXECS:-1000000}" bad=0 total=0
  local log="$VERIF/work/fuzz.$$.log"
  for target in FuzzUnit FuzzTerm FuzzPipeline FuzzFactFile; do
    (cd "$VERIF/harness" && go test -tags verif $MODFLAG -run '^$' -fuzz "^${target}\$" -fuzztime="${execs}x" ./fuzz) >"$log" 2>&1
    local rc=$?
    local n=$(grep -o 'execs: [0-9]*' "$log" | tail -1 | grep -o '[0-9]*')
    total=$((total + ${n:-0}))
    echo "fuzz $target: exit $rc, executions ${n:-0}"
    if [ $rc -ne 0 ]; then
      local crasher=$(grep -o 'testdata/fuzz/[A-Za-z]*/[0-9a-f]*' "$log" | head -1)
      if [ -n "$crasher" ] && [ -f "$VERIF/harness/fuzz/$crasher" ]; then
        local dst="$VERIF/replays/C10-fuzz-$target-$(basename "$crasher")"
        cp "$VERIF/harness/fuzz/$crasher" "$dst"
        rm -f "$VERIF/harness/fuzz/$crasher"
        echo "VIOLATION property=C10 replay=$dst"
        grep -m1 -A12 -E 'panic:|fatal error' "$log" | sed 's/^/  /'
        bad=1
      else
        echo "fuzz $target failed without a crasher (harness problem):"; tail -20 "$log"; rm -f "$log"; return 2
      fi
    fi
  done
  rm -f "$log"
  python3 - "$VERIF/evidence/C10.json" "$total" "$bad" <<'PY'
import json,sys
p,total,bad=sys.argv[1],int(sys.argv[2]),int(sys.argv[3])
e=json.load(open(p))
e['coverage']['fuzz_executions']=total
e['coverage']['fuzz_targets']=['FuzzUnit','FuzzTerm','FuzzPipeline','FuzzFactFile']
e['coverage']['evaluations']+=total
if bad: e['violations']=e.get('violations',0)+1
json.dump(e,open(p,'w'),indent=1)
PY
  return $bad
}

cmd="${1:-}"
case "$cmd" in
  build)
    build "$BIN/vcheck" || exit 2
    build "$BIN/vcheck-race" -race || exit 2
    exit 0 ;;
  replay)
    build "$BIN/vcheck" || exit 2
    exec "$BIN/vcheck" -verif "$VERIF" -replay "$2" ;;
  C[0-9][0-9])
    tier="${2:-${VERIF_TIER:-quick}}"
    shift; shift || true
    if [ "$cmd" = "C18" ]; then
      build "$BIN/vcheck-race" -race || exit 2
      exec "$BIN/vcheck-race" -verif "$VERIF" -prop "$cmd" -tier "$tier" -seed "$SEED" "$@"
    fi
    build "$BIN/vcheck" || exit 2
    if [ "$cmd" = "C10" ] && [ "$tier" = "thorough" ]; then
      "$BIN/vcheck" -verif "$VERIF" -prop "$cmd" -tier "$tier" -seed "$SEED" "$@"
      rc=$?
      [ $rc -eq 2 ] && exit 2
      fuzz_c10 || rc=1
      exit $rc
    fi
    exec "$BIN/vcheck" -verif "$VERIF" -prop "$cmd" -tier "$tier" -seed "$SEED" "$@" ;;
  *)
    echo "usage: run.sh <C01..C20> <quick|thorough> | replay <file> | build" >&2; exit 2 ;;
esac
