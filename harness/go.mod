module verif

go 1.25.0

require (
	codeberg.org/TauCeti/mangle-go v0.0.0
	github.com/klauspost/compress v1.18.6
)

require (
	bitbucket.org/creachadair/stringset v0.0.14 // indirect
	github.com/antlr4-go/antlr/v4 v4.13.1 // indirect
	github.com/chzyer/readline v1.5.1 // indirect
	go.uber.org/multierr v1.11.0 // indirect
	golang.org/x/exp v0.0.0-20260611194520-c48552f49976 // indirect
)

replace codeberg.org/TauCeti/mangle-go => /repo

require github.com/anishathalye/porcupine v1.3.0
