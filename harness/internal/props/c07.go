package props

import (
	"encoding/json"
	"errors"
	"fmt"
	"math"
	"math/rand"
	"sort"
	"strconv"
	"strings"

	"codeberg.org/TauCeti/mangle-go/ast"
	"codeberg.org/TauCeti/mangle-go/builtin"
	"codeberg.org/TauCeti/mangle-go/functional"
	"codeberg.org/TauCeti/mangle-go/unionfind"

	"verif/internal/canon"
	"verif/internal/core"
	"verif/internal/gen"
)

// C07 — built-in functions and predicates obey their defining laws.

type c07Case struct {
	Law  string    `json:"law"`
	Args []gen.Val `json:"args"`
	Ints []int64   `json:"ints,omitempty"`
	Strs []string  `json:"strs,omitempty"`
	Seed int64     `json:"seed,omitempty"`
}

type c07 struct{}

func init() { core.Register(c07{}) }

var c07Laws = []string{"pair", "list", "list-member", "cons-append", "map", "map-dup", "struct", "arith", "divmod", "div-nary", "div-unary", "cmp-num", "cmp-time", "cmp-dur",
	"concat", "replace", "strpred", "name-fns", "to-string", "reduce-int", "reduce-avg", "reduce-collect", "list-reducers", "match-prefix", "tuple"}

func (c07) ID() string { return "C07" }
func (c07) Cases(tier string) int {
	if tier == "thorough" {
		return 5000000
	}
	return 250000
}
func (c07) Describe() core.Info {
	return core.Info{
		Level: "exploration",
		Rule: "one law instance per case, cycling through " + strings.Join(c07Laws, ", ") + "; arguments from the constant generator with the boundary pool (MinInt64, MaxInt64, +-2^53, empty and nested structures, duplicate map keys, multi-part names, non-ASCII strings); laws evaluated on direct calls to functional.EvalApplyFn / EvalReduceFn / builtin.Decide and compared with native Go values (wrapping int64 arithmetic, Go's truncating / and %, strings.*, sort). Reducers are re-run under 20 random row permutations. Non-trivial: instance involves a boundary value or nested structure; distinct by (law, canonical arguments).",
		Assumptions: []string{"fn:map:get on duplicate keys may return any of the supplied values", ":match_prefix is judged only where plain-string prefix and part-wise prefix agree", "fn:avg is compared with float64(sum)/n only when all partial sums are exactly representable (< 2^53); beyond that only permutation invariance is required"},
	}
}

func (c07) Gen(r *rand.Rand, tier string, i int) any {
	law := c07Laws[i%len(c07Laws)]
	o := gen.ConstOpts{MaxDepth: 2}
	c := c07Case{Law: law, Seed: r.Int63()}
	rv := func() gen.Val { return gen.RandVal(r, o, 0) }
	ri := func() int64 { return gen.RandInt(r, false) }
	switch law {
	case "pair", "tuple":
		c.Args = []gen.Val{rv(), rv(), rv()}
	case "list", "list-member", "cons-append", "list-reducers":
		n := r.Intn(6)
		for k := 0; k < n; k++ {
			if law == "list-reducers" {
				c.Args = append(c.Args, gen.Num(ri()))
			} else if r.Intn(3) == 0 && len(c.Args) > 0 {
				c.Args = append(c.Args, c.Args[r.Intn(len(c.Args))]) // duplicates
			} else {
				c.Args = append(c.Args, rv())
			}
		}
		c.Args = append(c.Args, rv()) // extra element (probe / cons head)
	case "map", "struct", "map-dup":
		n := r.Intn(5)
		seen := map[string]bool{}
		for k := 0; k < n; k++ {
			var key gen.Val
			if law == "struct" {
				key = gen.Name(gen.RandName(r, false))
			} else {
				key = gen.RandVal(r, o, 1)
			}
			ck := canon.Const(key.Const())
			if seen[ck] && law != "map-dup" {
				continue
			}
			seen[ck] = true
			c.Args = append(c.Args, key, rv())
			if law == "map-dup" && r.Intn(2) == 0 {
				c.Args = append(c.Args, key, rv())
			}
		}
		c.Args = append(c.Args, rv()) // probe key (likely absent)
	case "arith", "divmod", "div-nary", "div-unary", "cmp-num", "cmp-time", "cmp-dur", "reduce-int", "reduce-avg":
		n := 1 + r.Intn(4)
		if law == "divmod" {
			n = 2
		}
		if strings.HasPrefix(law, "cmp") {
			n = 3
		}
		if strings.HasPrefix(law, "reduce") {
			n = 1 + r.Intn(7)
		}
		for k := 0; k < n; k++ {
			v := ri()
			if law == "divmod" && k == 1 && r.Intn(3) == 0 {
				v = []int64{0, 1, -1, 2, -2, math.MinInt64}[r.Intn(6)]
			}
			if law == "reduce-avg" && r.Intn(4) > 0 {
				v = int64(r.Intn(2001) - 1000)
			}
			if strings.HasPrefix(law, "cmp") && k > 0 && r.Intn(3) == 0 {
				v = c.Ints[k-1] + int64(r.Intn(3)-1)
			}
			c.Ints = append(c.Ints, v)
		}
	case "concat", "replace", "strpred", "to-string":
		n := 1 + r.Intn(4)
		for k := 0; k < n; k++ {
			c.Strs = append(c.Strs, gen.RandString(r))
		}
		if law == "strpred" && r.Intn(2) == 0 && len(c.Strs[0]) > 0 {
			s := c.Strs[0]
			a, b := r.Intn(len(s)+1), r.Intn(len(s)+1)
			if a > b {
				a, b = b, a
			}
			c.Strs = []string{s, s[a:b]}
		}
		c.Ints = []int64{int64(r.Intn(5) - 1), ri()}
		c.Args = []gen.Val{gen.Name(gen.RandName(r, false))}
	case "name-fns", "match-prefix":
		c.Args = []gen.Val{gen.Name(gen.RandName(r, false)), gen.Name(gen.RandName(r, false))}
		if law == "match-prefix" && r.Intn(2) == 0 {
			c.Args[0] = gen.Name(c.Args[1].S + gen.RandName(r, false))
		}
	case "reduce-collect":
		n := 1 + r.Intn(6)
		for k := 0; k < n; k++ {
			if k > 0 && r.Intn(3) == 0 {
				c.Args = append(c.Args, c.Args[r.Intn(len(c.Args))])
			} else {
				c.Args = append(c.Args, rv())
			}
		}
		if r.Intn(3) == 0 {
			// distinct structured values of one shape with equal Hash(): a set must keep them apart
			twins := [][]gen.Val{
				{gen.ListV(), gen.ListV(gen.Num(0)), gen.ListV(gen.ListV()), gen.ListV(gen.Num(0), gen.Num(0))},
				{gen.MapV(), gen.MapV(gen.Num(0), gen.Num(0))},
				{gen.StructV(), gen.StructV(gen.Name("/a"), gen.Num(0))},
				{gen.ListV(gen.Num(1)), gen.ListV(gen.Num(1 + 1<<56))},
				{gen.PairV(gen.Num(1), gen.Str("x")), gen.PairV(gen.Num(1+1<<57), gen.Str("x"))},
				{gen.ListV(gen.Num(1), gen.Num(0)), gen.ListV(gen.Num(1))},
				{gen.Num(0), gen.Float(0), gen.Dur(0)},
				{gen.Name("/a"), gen.Str("/a")},
			}
			c.Args = append(c.Args, twins[r.Intn(len(twins))]...)
			r.Shuffle(len(c.Args), func(a, b int) { c.Args[a], c.Args[b] = c.Args[b], c.Args[a] })
		}
	}
	return c
}

func (c07) Decode(raw json.RawMessage) (any, error) {
	var c c07Case
	err := json.Unmarshal(raw, &c)
	return c, err
}

func apply(fn string, args ...ast.BaseTerm) (ast.Constant, error) {
	return functional.EvalApplyFn(ast.ApplyFn{Function: ast.FunctionSym{Symbol: fn, Arity: len(args)}, Args: args}, nil)
}

func decide(pred string, args ...ast.BaseTerm) (bool, []*unionfind.UnionFind, error) {
	uf := unionfind.New()
	return builtin.Decide(ast.Atom{Predicate: ast.PredicateSym{Symbol: pred, Arity: len(args)}, Args: args}, &uf)
}

func ceq(a, b ast.Constant) bool { return canon.Const(a) == canon.Const(b) }

func vx(n string) ast.Variable { return ast.Variable{Symbol: n} }

func boundVal(u *unionfind.UnionFind, v ast.Variable) (ast.Constant, bool) {
	c, ok := u.Get(v).(ast.Constant)
	return c, ok
}

func num(n int64) ast.Constant { return ast.Number(n) }

func (c07) Run(cs any) core.Result {
	c := cs.(c07Case)
	var res core.Result
	raw, _ := json.Marshal(c)
	res.Key = core.HashKey(c.Law, string(raw))
	res.Ob("law:"+c.Law, 1)
	nt := false
	for _, a := range c.Args {
		if a.Depth() >= 1 {
			nt = true
		}
	}
	for _, n := range c.Ints {
		if n > 1<<31 || n < -(1<<31) || n == 0 || n == -1 {
			nt = true
		}
	}
	for _, s := range c.Strs {
		if !isPrintableASCII(s) || s == "" {
			nt = true
		}
	}
	res.NonTrivial = nt
	fail := func(sig, format string, a ...any) core.Result {
		res.Violate(c.Law+":"+sig, format, a...)
		return res
	}
	consts := make([]ast.Constant, len(c.Args))
	for i, a := range c.Args {
		consts[i] = a.Const()
	}
	bt := func(cs []ast.Constant) []ast.BaseTerm {
		out := make([]ast.BaseTerm, len(cs))
		for i, x := range cs {
			out[i] = x
		}
		return out
	}
	switch c.Law {
	case "pair":
		a, b := consts[0], consts[1]
		p, err := apply("fn:pair", a, b)
		if err != nil {
			return fail("error", "fn:pair(%v,%v): %v", a, b, err)
		}
		ok, subs, err := decide(":match_pair", p, vx("X"), vx("Y"))
		if err != nil || !ok || len(subs) != 1 {
			return fail("match", ":match_pair(%v,X,Y) = %v, %d solutions, err %v", p, ok, len(subs), err)
		}
		x, okx := boundVal(subs[0], vx("X"))
		y, oky := boundVal(subs[0], vx("Y"))
		if !okx || !oky || !ceq(x, a) || !ceq(y, b) {
			return fail("inverse", ":match_pair(fn:pair(%v,%v)) bound X=%v Y=%v", a, b, x, y)
		}
		if ok, _, _ := decide(":match_pair", consts[2], vx("X"), vx("Y")); ok != (consts[2].Type == ast.PairShape) {
			return fail("non-pair", ":match_pair(%v,X,Y) = %v", consts[2], ok)
		}
	case "tuple":
		t3, err := apply("fn:tuple", consts[0], consts[1], consts[2])
		if err != nil {
			return fail("error", "fn:tuple: %v", err)
		}
		inner := ast.Pair(&consts[1], &consts[2])
		want := ast.Pair(&consts[0], &inner)
		if !ceq(t3, want) {
			return fail("shape", "fn:tuple(a,b,c) = %v, want pair(a, pair(b,c)) = %v", t3, want)
		}
		t1, err := apply("fn:tuple", consts[0])
		if err != nil || !ceq(t1, consts[0]) {
			return fail("unary", "fn:tuple(a) = %v err %v", t1, err)
		}
		t2, err := apply("fn:tuple", consts[0], consts[1])
		if err != nil || !ceq(t2, ast.Pair(&consts[0], &consts[1])) {
			return fail("binary", "fn:tuple(a,b) = %v err %v", t2, err)
		}
	case "list":
		xs := consts[:len(consts)-1]
		probe := consts[len(consts)-1]
		l, err := apply("fn:list", bt(xs)...)
		if err != nil {
			return fail("error", "fn:list: %v", err)
		}
		if !ceq(l, ast.List(append([]ast.Constant{}, xs...))) && len(xs) > 0 {
			return fail("ctor", "fn:list(%v) = %v differs from ast.List", xs, l)
		}
		n, err := apply("fn:list:len", l)
		if err != nil || !ceq(n, num(int64(len(xs)))) {
			return fail("len", "fn:list:len(%v) = %v err %v, want %d", l, n, err, len(xs))
		}
		for i, x := range xs {
			g, err := apply("fn:list:get", l, num(int64(i)))
			if err != nil || !ceq(g, x) {
				return fail("get", "fn:list:get(%v,%d) = %v err %v, want %v", l, i, g, err, x)
			}
		}
		for _, bad := range []int64{-1, int64(len(xs)), math.MinInt64, math.MaxInt64} {
			if g, err := apply("fn:list:get", l, num(bad)); err == nil {
				return fail("get-oob", "fn:list:get(%v,%d) = %v without error", l, bad, g)
			}
		}
		for _, x := range append(append([]ast.Constant{}, xs...), probe) {
			want := false
			for _, y := range xs {
				if ceq(x, y) {
					want = true
				}
			}
			g, err := apply("fn:list:contains", l, x)
			wantC := ast.FalseConstant
			if want {
				wantC = ast.TrueConstant
			}
			if err != nil || !ceq(g, wantC) {
				return fail("contains", "fn:list:contains(%v,%v) = %v err %v, want %v", l, x, g, err, want)
			}
		}
		okNil, _, err := decide(":match_nil", l)
		if err != nil || okNil != (len(xs) == 0) {
			return fail("match-nil", ":match_nil(%v) = %v err %v", l, okNil, err)
		}
		ok, subs, err := decide(":match_cons", l, vx("H"), vx("T"))
		if err != nil {
			return fail("match-cons-error", ":match_cons(%v): %v", l, err)
		}
		if len(xs) == 0 {
			if ok {
				return fail("match-cons-empty", ":match_cons([]) succeeded")
			}
		} else {
			if !ok || len(subs) != 1 {
				return fail("match-cons", ":match_cons(%v) = %v", l, ok)
			}
			h, _ := boundVal(subs[0], vx("H"))
			t, _ := boundVal(subs[0], vx("T"))
			wantT := ast.ListNil
			if len(xs) > 1 {
				wantT = ast.List(append([]ast.Constant{}, xs[1:]...))
			}
			if !ceq(h, xs[0]) || !ceq(t, wantT) {
				return fail("match-cons-inverse", ":match_cons(%v) bound H=%v T=%v", l, h, t)
			}
		}
	case "list-member":
		xs := consts[:len(consts)-1]
		probe := consts[len(consts)-1]
		l, _ := apply("fn:list", bt(xs)...)
		ok, subs, err := decide(":list:member", vx("X"), l)
		if err != nil {
			return fail("error", ":list:member(X,%v): %v", l, err)
		}
		if ok != (len(xs) > 0) {
			return fail("enumerate-ok", ":list:member(X,%v) = %v", l, ok)
		}
		var got, want []string
		for _, s := range subs {
			v, okv := boundVal(s, vx("X"))
			if !okv {
				return fail("enumerate-unbound", ":list:member(X,%v) left X unbound", l)
			}
			got = append(got, canon.Const(v))
		}
		for _, x := range xs {
			want = append(want, canon.Const(x))
		}
		sort.Strings(got)
		sort.Strings(want)
		if strings.Join(got, "\x00") != strings.Join(want, "\x00") {
			return fail("enumerate", ":list:member(X,%v) enumerated %d bindings %v, list has %v", l, len(got), got, want)
		}
		for _, x := range append(append([]ast.Constant{}, xs...), probe) {
			wantIn := false
			for _, y := range xs {
				if ceq(x, y) {
					wantIn = true
				}
			}
			ok, _, err := decide(":list:member", x, l)
			if err != nil || ok != wantIn {
				return fail("check", ":list:member(%v,%v) = %v err %v, want %v", x, l, ok, err, wantIn)
			}
		}
	case "cons-append":
		xs := consts[:len(consts)-1]
		e := consts[len(consts)-1]
		l, _ := apply("fn:list", bt(xs)...)
		cl, err := apply("fn:list:cons", e, l)
		if err != nil || !ceq(cl, ast.List(append([]ast.Constant{e}, xs...))) {
			return fail("cons", "fn:list:cons(%v,%v) = %v err %v", e, l, cl, err)
		}
		al, err := apply("fn:list:append", l, e)
		if err != nil || !ceq(al, ast.List(append(append([]ast.Constant{}, xs...), e))) {
			return fail("append", "fn:list:append(%v,%v) = %v err %v", l, e, al, err)
		}
		if _, err := apply("fn:list:cons", e, e); err == nil && e.Type != ast.ListShape {
			return fail("cons-nonlist", "fn:list:cons(%v,%v) accepted a non-list tail", e, e)
		}
	case "map", "struct", "map-dup":
		kind := "map"
		get, match := "fn:map:get", ":match_entry"
		if c.Law == "struct" {
			kind, get, match = "struct", "fn:struct:get", ":match_field"
		}
		kvs := consts[:len(consts)-1]
		probe := consts[len(consts)-1]
		m, err := apply("fn:"+kind, bt(kvs)...)
		if err != nil {
			return fail("error", "fn:%s(%v): %v", kind, kvs, err)
		}
		vals := map[string][]ast.Constant{}
		for i := 0; i+1 < len(kvs); i += 2 {
			k := canon.Const(kvs[i])
			vals[k] = append(vals[k], kvs[i+1])
		}
		oneOf := func(v ast.Constant, cands []ast.Constant) bool {
			for _, x := range cands {
				if ceq(v, x) {
					return true
				}
			}
			return false
		}
		for i := 0; i+1 < len(kvs); i += 2 {
			g, err := apply(get, m, kvs[i])
			if err != nil || !oneOf(g, vals[canon.Const(kvs[i])]) {
				return fail("get", "%s(%v,%v) = %v err %v, want one of %v", get, m, kvs[i], g, err, vals[canon.Const(kvs[i])])
			}
			ok, subs, err := decide(match, m, kvs[i], vx("V"))
			if err != nil || !ok || len(subs) != 1 {
				return fail("match", "%s(%v,%v,V) = %v err %v", match, m, kvs[i], ok, err)
			}
			v, _ := boundVal(subs[0], vx("V"))
			if !oneOf(v, vals[canon.Const(kvs[i])]) {
				return fail("match-inverse", "%s(%v,%v,V) bound V=%v", match, m, kvs[i], v)
			}
		}
		if _, present := vals[canon.Const(probe)]; !present {
			if g, err := apply(get, m, probe); err == nil {
				return fail("get-absent", "%s(%v,%v) = %v for an absent key", get, m, probe, g)
			}
			if ok, _, _ := decide(match, m, probe, vx("V")); ok {
				return fail("match-absent", "%s(%v,%v,V) succeeded for an absent key", match, m, probe)
			}
		}
		// entries enumerate exactly the supplied pairs (distinct keys only)
		if c.Law != "map-dup" {
			n := 0
			cb := func(k, v ast.Constant) error {
				n++
				if !oneOf(v, vals[canon.Const(k)]) {
					return fmt.Errorf("entry %v : %v was never supplied", k, v)
				}
				return nil
			}
			var e2 error
			if kind == "map" {
				_, e2 = m.MapValues(cb, func() error { return nil })
			} else {
				_, e2 = m.StructValues(cb, func() error { return nil })
			}
			if e2 != nil || n != len(kvs)/2 {
				return fail("entries", "fn:%s(%v) holds %d entries (%v), %d supplied", kind, kvs, n, e2, len(kvs)/2)
			}
		}
	case "arith":
		xs := c.Ints
		args := make([]ast.BaseTerm, len(xs))
		for i, x := range xs {
			args[i] = num(x)
		}
		var sum, prod int64 = 0, 1
		diff := xs[0]
		for i, x := range xs {
			sum += x
			prod *= x
			if i > 0 {
				diff -= x
			}
		}
		if len(xs) == 1 {
			diff = -xs[0]
		}
		for _, t := range []struct {
			fn   string
			want int64
		}{{"fn:plus", sum}, {"fn:mult", prod}, {"fn:minus", diff}} {
			g, err := apply(t.fn, args...)
			if err != nil || !ceq(g, num(t.want)) {
				return fail(t.fn, "%s(%v) = %v err %v, want %d (two's complement)", t.fn, xs, g, err, t.want)
			}
		}
	case "divmod":
		x, y := c.Ints[0], c.Ints[1]
		d, errD := apply("fn:div", num(x), num(y))
		m, errM := apply("fn:mod", num(x), num(y))
		if y == 0 {
			if !errors.Is(errD, functional.ErrDivisionByZero) || !errors.Is(errM, functional.ErrDivisionByZero) {
				return fail("by-zero", "fn:div(%d,0) -> %v,%v ; fn:mod(%d,0) -> %v,%v : expected division-by-zero errors", x, d, errD, x, m, errM)
			}
			return res
		}
		if errD != nil || errM != nil {
			return fail("error", "fn:div/mod(%d,%d): %v %v", x, y, errD, errM)
		}
		if !ceq(d, num(x/y)) || !ceq(m, num(x%y)) {
			return fail("value", "fn:div(%d,%d)=%v fn:mod=%v, want %d and %d", x, y, d, m, x/y, x%y)
		}
		if d.NumValue*y+m.NumValue != x {
			return fail("identity", "x != (x div y)*y + (x mod y) for x=%d y=%d", x, y)
		}
	case "div-nary":
		xs := c.Ints
		if len(xs) < 2 {
			return res
		}
		args := make([]ast.BaseTerm, len(xs))
		for i, x := range xs {
			args[i] = num(x)
		}
		want := xs[0]
		zero := false
		for _, y := range xs[1:] {
			if y == 0 {
				zero = true
				break
			}
			want /= y
		}
		g, err := apply("fn:div", args...)
		if zero {
			// a zero divisor reached before the quotient collapsed must be reported
			q := xs[0]
			reached := false
			for _, y := range xs[1:] {
				if y == 0 {
					reached = true
					break
				}
				q /= y
				if q == 0 {
					break
				}
			}
			if reached && !errors.Is(err, functional.ErrDivisionByZero) {
				return fail("by-zero", "fn:div(%v) = %v err %v: division by zero not reported", xs, g, err)
			}
			return res
		}
		if err != nil || !ceq(g, num(want)) {
			return fail("value", "fn:div(%v) = %v err %v, want %d", xs, g, err, want)
		}
	case "div-unary":
		x := c.Ints[0]
		g, err := apply("fn:div", num(x))
		if x == 0 {
			if !errors.Is(err, functional.ErrDivisionByZero) {
				return fail("by-zero", "fn:div(0) = %v err %v", g, err)
			}
			return res
		}
		if err != nil || !ceq(g, num(1/x)) {
			return fail("value", "fn:div(%d) = %v err %v, documented as 1/x = %d", x, g, err, 1/x)
		}
	case "cmp-num", "cmp-time", "cmp-dur":
		mk := func(n int64) ast.Constant { return num(n) }
		pre := ":"
		switch c.Law {
		case "cmp-time":
			mk, pre = ast.Time, ":time:"
		case "cmp-dur":
			mk, pre = ast.Duration, ":duration:"
		}
		xs := c.Ints
		rel := func(name string, a, b int64) (bool, error) {
			ok, _, err := decide(pre+name, mk(a), mk(b))
			return ok, err
		}
		for i := 0; i < 3; i++ {
			for j := 0; j < 3; j++ {
				a, b := xs[i], xs[j]
				lt, e1 := rel("lt", a, b)
				le, e2 := rel("le", a, b)
				gt, e3 := rel("gt", a, b)
				ge, e4 := rel("ge", a, b)
				if e1 != nil || e2 != nil || e3 != nil || e4 != nil {
					return fail("error", "comparison of %d and %d failed: %v %v %v %v", a, b, e1, e2, e3, e4)
				}
				if lt != (a < b) || le != (a <= b) || gt != (a > b) || ge != (a >= b) {
					return fail("value", "%slt/le/gt/ge(%d,%d) = %v %v %v %v", pre, a, b, lt, le, gt, ge)
				}
			}
		}
	case "concat":
		args := []ast.BaseTerm{}
		want := ""
		for i, s := range c.Strs {
			switch i % 3 {
			case 0:
				args = append(args, ast.String(s))
				want += s
			case 1:
				args = append(args, num(c.Ints[1]))
				want += strconv.FormatInt(c.Ints[1], 10)
			default:
				args = append(args, consts[0])
				want += c.Args[0].S
			}
		}
		g, err := apply("fn:string:concat", args...)
		if err != nil || !ceq(g, ast.String(want)) {
			return fail("value", "fn:string:concat(%v) = %v err %v, want %q", args, g, err, want)
		}
	case "replace":
		s := c.Strs[0]
		old, nw := "", "x"
		if len(c.Strs) > 1 {
			old = c.Strs[1]
		}
		if len(c.Strs) > 2 {
			nw = c.Strs[2]
		}
		if len(s) > 0 && old == "" && c.Seed%2 == 0 {
			old = s[:1]
		}
		n := c.Ints[0]
		g, err := apply("fn:string:replace", ast.String(s), ast.String(old), ast.String(nw), num(n))
		want := strings.Replace(s, old, nw, int(n))
		if err != nil || !ceq(g, ast.String(want)) {
			return fail("value", "fn:string:replace(%q,%q,%q,%d) = %v err %v, want %q", s, old, nw, n, g, err, want)
		}
	case "strpred":
		s, p := c.Strs[0], c.Strs[len(c.Strs)-1]
		for _, t := range []struct {
			pred string
			want bool
		}{{":string:starts_with", strings.HasPrefix(s, p)}, {":string:ends_with", strings.HasSuffix(s, p)}, {":string:contains", strings.Contains(s, p)}} {
			ok, _, err := decide(t.pred, ast.String(s), ast.String(p))
			if err != nil || ok != t.want {
				return fail(t.pred, "%s(%q,%q) = %v err %v, want %v", t.pred, s, p, ok, err, t.want)
			}
		}
	case "name-fns":
		n := c.Args[0].S
		parts := strings.Split(n[1:], "/")
		root, err1 := apply("fn:name:root", consts[0])
		tip, err2 := apply("fn:name:tip", consts[0])
		lst, err3 := apply("fn:name:list", consts[0])
		str, err4 := apply("fn:name:to_string", consts[0])
		if err1 != nil || err2 != nil || err3 != nil || err4 != nil {
			return fail("error", "name functions on %s: %v %v %v %v", n, err1, err2, err3, err4)
		}
		wr, _ := ast.Name("/" + parts[0])
		wt, _ := ast.Name("/" + parts[len(parts)-1])
		var wl []ast.Constant
		for _, p := range parts {
			x, _ := ast.Name("/" + p)
			wl = append(wl, x)
		}
		if !ceq(root, wr) || !ceq(tip, wt) || !ceq(lst, ast.List(wl)) || !ceq(str, ast.String(n)) {
			return fail("value", "name functions on %s: root=%v tip=%v list=%v to_string=%v", n, root, tip, lst, str)
		}
	case "to-string":
		n := c.Ints[1]
		g, err := apply("fn:number:to_string", num(n))
		if err != nil || !ceq(g, ast.String(strconv.FormatInt(n, 10))) {
			return fail("number", "fn:number:to_string(%d) = %v err %v", n, g, err)
		}
	case "match-prefix":
		name, prefix := c.Args[0].S, c.Args[1].S
		plain := strings.HasPrefix(name, prefix) && len(name) > len(prefix)
		partwise := strings.HasPrefix(name, prefix+"/")
		if plain != partwise {
			res.Ob("match_prefix_ambiguous_skipped", 1)
			return res
		}
		ok, _, err := decide(":match_prefix", consts[0], consts[1])
		if err != nil || ok != plain {
			return fail("value", ":match_prefix(%s,%s) = %v err %v, want %v", name, prefix, ok, err, plain)
		}
	case "reduce-int", "reduce-avg":
		xs := c.Ints
		r := rand.New(rand.NewSource(c.Seed))
		rowsOf := func(order []int) []ast.ConstSubstList {
			var rows []ast.ConstSubstList
			for _, i := range order {
				rows = append(rows, ast.ConstSubstList{}.Extend(vx("Y"), num(int64(i))).Extend(vx("X"), num(xs[i])))
			}
			return rows
		}
		id := make([]int, len(xs))
		for i := range id {
			id[i] = i
		}
		var sum int64
		mn, mx := xs[0], xs[0]
		exact := true
		var absSum float64 // order-independent criterion: sum of magnitudes below 2^53
		for _, x := range xs {
			sum += x
			absSum += math.Abs(float64(x))
			if absSum >= 1<<53 {
				exact = false
			}
			if x < mn {
				mn = x
			}
			if x > mx {
				mx = x
			}
		}
		reducers := []struct {
			fn   string
			args []ast.BaseTerm
			want *ast.Constant
		}{}
		cN, cS, cMn, cMx := num(int64(len(xs))), num(sum), num(mn), num(mx)
		if c.Law == "reduce-int" {
			reducers = append(reducers,
				struct {
					fn   string
					args []ast.BaseTerm
					want *ast.Constant
				}{"fn:count", nil, &cN},
				struct {
					fn   string
					args []ast.BaseTerm
					want *ast.Constant
				}{"fn:sum", []ast.BaseTerm{vx("X")}, &cS},
				struct {
					fn   string
					args []ast.BaseTerm
					want *ast.Constant
				}{"fn:min", []ast.BaseTerm{vx("X")}, &cMn},
				struct {
					fn   string
					args []ast.BaseTerm
					want *ast.Constant
				}{"fn:max", []ast.BaseTerm{vx("X")}, &cMx})
		} else {
			var w *ast.Constant
			if exact {
				a := ast.Float64(float64(sum) / float64(len(xs)))
				w = &a
			}
			reducers = append(reducers, struct {
				fn   string
				args []ast.BaseTerm
				want *ast.Constant
			}{"fn:avg", []ast.BaseTerm{vx("X")}, w})
		}
		for _, rd := range reducers {
			fn := ast.ApplyFn{Function: ast.FunctionSym{Symbol: rd.fn, Arity: len(rd.args)}, Args: rd.args}
			first, err := functional.EvalReduceFn(fn, rowsOf(id))
			if err != nil {
				return fail("error", "%s over %v: %v", rd.fn, xs, err)
			}
			if rd.want != nil && !ceq(first, *rd.want) {
				return fail(rd.fn+":value", "%s over %v = %v, want %v", rd.fn, xs, first, *rd.want)
			}
			for k := 0; k < 20; k++ {
				perm := r.Perm(len(xs))
				g, err := functional.EvalReduceFn(fn, rowsOf(perm))
				if err != nil || !ceq(g, first) {
					sig := rd.fn + ":order-dependent"
					if rd.fn == "fn:avg" && !exact {
						sig = "fn:avg:order-dependent-beyond-2^53"
					}
					order := make([]int64, len(perm))
					for i, p := range perm {
						order[i] = xs[p]
					}
					return fail(sig, "%s depends on row order: %v gives %v, %v gives %v (err %v)", rd.fn, xs, first, order, g, err)
				}
			}
		}
	case "reduce-collect":
		r := rand.New(rand.NewSource(c.Seed))
		rowsOf := func(order []int) []ast.ConstSubstList {
			var rows []ast.ConstSubstList
			for _, i := range order {
				rows = append(rows, ast.ConstSubstList{}.Extend(vx("X"), consts[i]))
			}
			return rows
		}
		want := map[string]bool{}
		for _, x := range consts {
			want[canon.Const(x)] = true
		}
		fn := ast.ApplyFn{Function: ast.FunctionSym{Symbol: "fn:collect_distinct", Arity: 1}, Args: []ast.BaseTerm{vx("X")}}
		for k := 0; k < 20; k++ {
			perm := r.Perm(len(consts))
			g, err := functional.EvalReduceFn(fn, rowsOf(perm))
			if err != nil {
				return fail("error", "fn:collect_distinct: %v", err)
			}
			got := map[string]int{}
			g.ListValues(func(e ast.Constant) error { got[canon.Const(e)]++; return nil }, func() error { return nil })
			for k2, n := range got {
				if n > 1 || !want[k2] {
					return fail("set", "fn:collect_distinct over %v = %v (duplicate or alien element)", consts, g)
				}
			}
			if len(got) != len(want) {
				return fail("set", "fn:collect_distinct over %v = %v: %d distinct elements, want %d", consts, g, len(got), len(want))
			}
		}
	case "list-reducers":
		xs := consts[:len(consts)-1]
		if len(xs) == 0 {
			return res
		}
		l, _ := apply("fn:list", bt(xs)...)
		var sum int64
		mn, mx := xs[0].NumValue, xs[0].NumValue
		for _, x := range xs {
			sum += x.NumValue
			if x.NumValue < mn {
				mn = x.NumValue
			}
			if x.NumValue > mx {
				mx = x.NumValue
			}
		}
		for _, t := range []struct {
			fn   string
			want int64
		}{{"fn:sum", sum}, {"fn:min", mn}, {"fn:max", mx}} {
			g, err := apply(t.fn, l)
			if err != nil || !ceq(g, num(t.want)) {
				return fail(t.fn, "%s(%v) = %v err %v, want %d", t.fn, l, g, err, t.want)
			}
		}
	}
	return res
}
