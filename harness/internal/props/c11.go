package props

import (
	"sort"
	"encoding/json"
	"fmt"
	"math/rand"
	"strings"

	"codeberg.org/TauCeti/mangle-go/analysis"
	"codeberg.org/TauCeti/mangle-go/ast"
	"codeberg.org/TauCeti/mangle-go/builtin"
	"codeberg.org/TauCeti/mangle-go/engine"
	"codeberg.org/TauCeti/mangle-go/factstore"
	"codeberg.org/TauCeti/mangle-go/parse"

	"verif/internal/core"
	"verif/internal/gen"
)

// C11 — facts of declared predicates conform to their declared bounds.

type c11Case struct {
	Text   string `json:"text"`   // program source
	Shape  string `json:"shape"`  // rule shape
	// Preload: ground atoms (source text) put into the store before evaluation: base facts of extensional predicates
	Preload []string `json:"preload,omitempty"`
	Syntax string `json:"syntax"` // fn | dot (how bounds are written)
}

type c11 struct{}

func init() { core.Register(c11{}) }

func (c11) ID() string { return "C11" }
func (c11) Cases(tier string) int {
	if tier == "thorough" {
		return 2000000
	}
	return 100000
}
func (c11) Describe() core.Info {
	return core.Info{
		Level: "exploration",
		Rule: "declared programs written as source text: an extensional predicate q declared with one or two bound rows drawn from the type-expression generator (base types, name-prefix types incl. prefix-of-a-prefix names /foo vs /foobar, singletons, unions, pairs, lists, maps, structs with optional fields, tagged unions; function and dot syntax) with base facts that are members by construction and near-misses (sibling prefix, wrong shape, extra struct field); an intensional predicate p declared with a related bound (same, widened, narrowed, mutated) and one rule that copies, projects, constructs (fn:pair, list, map, struct) or destructures (:match_pair, :list:member, :match_field, :match_entry) values, or joins q (two bound rows) with a wider predicate src on the same variable in either premise order, or narrows a union of name-prefix types by one or two negated :match_prefix premises over a small name trie, or declares the head predicate with a mode (? / - / + on the derived argument), or derives a declared predicate from an undeclared recursive one whose values change type at every hop (clauses in either order). Programs are submitted to AnalyzeAndCheckBounds(ErrorForBoundsMismatch); every accepted program is evaluated and every stored fact of a user-declared predicate is judged by the library's own run-time check (builtin.TypeChecker.CheckTypeBounds). Non-trivial: program accepted and the declared intensional predicate has a derived fact; distinct by program text. Further shapes: a declared head with a mode; a predicate with unit clauses and rules; :match_prefix and reflects over names that extend the prefix without a separator; names under the names of built-in types; a constant argument over an extensional predicate with two bound rows and an enum column (facts preloaded).",
		Assumptions: []string{"the run-time judgement is the library's own, as the property states", "rejected programs are not judged"},
	}
}

func c11TypeText(t gen.TermV, syntax string) string {
	return c11ExprText(c12Build(t, "fn"), syntax)
}

// c11ExprText prints a type expression in function or dot syntax.
func c11ExprText(t ast.BaseTerm, syntax string) string {
	f, ok := t.(ast.ApplyFn)
	if !ok || syntax != "dot" {
		return t.String()
	}
	name := strings.TrimPrefix(f.Function.Symbol, "fn:")
	var parts []string
	switch name {
	case "Struct":
		for i := 0; i < len(f.Args); i++ {
			if o, ok := f.Args[i].(ast.ApplyFn); ok && o.Function.Symbol == "fn:opt" {
				parts = append(parts, "opt "+c11ExprText(o.Args[0], syntax)+" : "+c11ExprText(o.Args[1], syntax))
				continue
			}
			if i+1 < len(f.Args) {
				parts = append(parts, c11ExprText(f.Args[i], syntax)+" : "+c11ExprText(f.Args[i+1], syntax))
				i++
			}
		}
	case "TaggedUnion":
		parts = append(parts, c11ExprText(f.Args[0], syntax))
		for i := 1; i+1 < len(f.Args); i += 2 {
			parts = append(parts, c11ExprText(f.Args[i], syntax)+" : "+c11ExprText(f.Args[i+1], syntax))
		}
	default:
		for _, a := range f.Args {
			parts = append(parts, c11ExprText(a, syntax))
		}
	}
	return "." + name + "<" + strings.Join(parts, ", ") + ">"
}

func (c11) Gen(r *rand.Rand, tier string, i int) any {
	syntax := "fn"
	if r.Intn(3) == 0 {
		syntax = "dot"
	}
	var t gen.TermV
	for {
		t = gen.RandTypeV(r, 1)
		if c12WellFormed(t) && !strings.Contains(fmt.Sprint(t), "fn:Option") {
			break
		}
	}
	// second row for q
	rows := []gen.TermV{t}
	if r.Intn(4) == 0 {
		t2 := gen.RandTypeV(r, 2)
		if c12WellFormed(t2) && !strings.Contains(fmt.Sprint(t2), "fn:Option") {
			rows = append(rows, t2)
		}
	}
	// members and near misses of q's rows
	var vals []gen.Val
	for _, row := range rows {
		for k := 0; k < 2; k++ {
			c12Members(r, row, 0, &vals)
		}
	}
	var sb strings.Builder
	sb.WriteString("Decl q(X)")
	for _, row := range rows {
		sb.WriteString(" bound [" + c11TypeText(row, syntax) + "]")
	}
	sb.WriteString(".\n")
	nf := 1 + r.Intn(4)
	for k := 0; k < nf && len(vals) > 0; k++ {
		v := vals[r.Intn(len(vals))]
		func() {
			defer func() { recover() }()
			sb.WriteString("q(" + v.Const().String() + ").\n")
		}()
	}
	// hash twins: a constant of another kind with the same Hash() as a member that is already a base fact
	// (n ~ duration n ns ~ time n ns, /a ~ "/a" ~ b"/a", 0 ~ [] ~ {} ~ 0.0); a memo keyed by hash must not
	// hand it the other constant's type
	twinText := ""
	if len(vals) > 0 && r.Intn(3) == 0 {
		v := vals[r.Intn(len(vals))]
		if tw := c11HashTwins(v); len(tw) > 0 {
			w := tw[r.Intn(len(tw))]
			func() {
				defer func() { recover() }()
				if v.Const().Hash() == w.Const().Hash() {
					twinText = "q(" + v.Const().String() + ").\nq(" + w.Const().String() + ").\n"
				}
			}()
		}
	}
	// p's declared type: related to t
	pt := t
	switch r.Intn(6) {
	case 0:
		pt = c12Mutate(r, t, 0)
	case 1:
		pt = gen.FnT("fn:Union", t, gen.RandTypeV(r, 2))
	case 2:
		pt = gen.ConstT(gen.Name("/any"))
	}
	if !c12WellFormed(pt) || strings.Contains(fmt.Sprint(pt), "fn:Option") {
		pt = t
	}
	shapes := []string{"copy", "pair", "list", "struct", "map", "member", "match-pair", "match-field", "copy-second-row", "cons", "join", "join-rev", "join-two-rows", "neg-prefix", "recursive-undeclared", "head-mode", "facts-and-rules", "match-prefix", "type-named-names", "const-in-multi-row"}
	shape := shapes[r.Intn(len(shapes))]
	if shape == "head-mode" {
		// the declared head predicate carries a mode: whatever the mode, a fact derived by a rule has to lie inside
		// the declared bound (an argument that may be input or output still takes its value from the body)
		trie := []string{"/name", "/foo", "/foo/a", "/bar", "/number", "/any"}
		pick := func() string { return trie[r.Intn(len(trie))] }
		members := map[string][]string{"/name": {"/bar/x", "/foo/y"}, "/foo": {"/foo/y", "/foo/a/z"}, "/foo/a": {"/foo/a/z"}, "/bar": {"/bar/x"}, "/number": {"1", "7"}, "/any": {"/bar/x", "1", "\"s\""}}
		qt, pt := pick(), pick()
		mode := []string{"'?'", "'-'", "'+'"}[r.Intn(3)]
		var nb strings.Builder
		fmt.Fprintf(&nb, "Decl q(X) bound [%s].\n", qt)
		for _, m := range members[qt] {
			fmt.Fprintf(&nb, "q(%s).\n", m)
		}
		if r.Intn(2) == 0 {
			fmt.Fprintf(&nb, "Decl p(X) descr [mode(%s)] bound [%s].\np(X) :- q(X).\n", mode, pt)
		} else {
			m2 := []string{"'?'", "'-'"}[r.Intn(2)]
			fmt.Fprintf(&nb, "Decl p(N, X) descr [mode(%s, %s)] bound [/number, %s].\np(2, X) :- q(X).\n", m2, mode, wrap2(syntax, "List", pt))
			nb.Reset()
			fmt.Fprintf(&nb, "Decl q(X) bound [%s].\n", qt)
			for _, m := range members[qt] {
				fmt.Fprintf(&nb, "q(%s).\n", m)
			}
			fmt.Fprintf(&nb, "Decl p(N, L) descr [mode(%s, %s)] bound [/number, %s].\np(2, L) :- q(X), L = [X].\n", m2, mode, wrap2(syntax, "List", pt))
		}
		if mode == "'+'" {
			shape = "head-mode-input" // see known finding F43
		}
		return c11Case{Text: nb.String(), Shape: shape, Syntax: syntax}
	}
	if shape == "match-prefix" {
		// :match_prefix(X, /p) narrows X to the name prefix type /p in the analysis; at run time it has to accept
		// exactly the names of that type (/p/..., not /pq/...)
		prefixes := []string{"/foo", "/foo/a", "/fo", "/bar", "/foo/ab"}
		names := []string{"/foobar", "/foo/y", "/foo/a/z", "/foo/ab", "/foo/ab/c", "/foo/abc/d", "/fo/o", "/bar/x", "/foo", "/barx/y", "/fo", "/foo/a"}
		pre := prefixes[r.Intn(len(prefixes))]
		pt := pre
		if r.Intn(3) == 0 {
			pt = prefixes[r.Intn(len(prefixes))]
		}
		var nb strings.Builder
		nb.WriteString("Decl q(X) bound [/name].\n")
		for _, k := range r.Perm(len(names))[:3+r.Intn(len(names)-2)] {
			fmt.Fprintf(&nb, "q(%s).\n", names[k])
		}
		fmt.Fprintf(&nb, "Decl p(X) bound [%s].\n", pt)
		if r.Intn(2) == 0 {
			fmt.Fprintf(&nb, "p(X) :- q(X), :match_prefix(X, %s).\n", pre)
		} else {
			// through a declared predicate that reflects the prefix type
			fmt.Fprintf(&nb, "Decl is_pre(X) descr [reflects(%s)] bound [%s].\np(X) :- q(X), is_pre(X).\n", pre, pre)
		}
		return c11Case{Text: nb.String(), Shape: shape, Syntax: syntax}
	}
	if shape == "type-named-names" {
		// names that start with the name of a built-in type (/time/x, /number/one): they are names, members of /name
		// and /any only, also when a declaration mentions the built-in type
		tps := []string{"/time", "/duration", "/name", "/number", "/string", "/float64", "/bytes", "/any"}
		a, b := tps[r.Intn(len(tps))], tps[r.Intn(len(tps))]
		var nb strings.Builder
		fmt.Fprintf(&nb, "Decl q(X) bound [%s].\nq(%s/x).\n", a, []string{a, b}[r.Intn(2)])
		if r.Intn(2) == 0 {
			fmt.Fprintf(&nb, "Decl w(X) bound [/name].\nw(%s/y).\nDecl p(X) bound [%s].\np(X) :- w(X).\n", b, b)
		} else {
			fmt.Fprintf(&nb, "Decl w(X, Y) bound [%s, /name].\nDecl p(X) bound [%s].\np(X) :- w(_, X), :match_prefix(X, %s).\nw(%s/z, %s/z).\n", a, b, b, a, b)
		}
		return c11Case{Text: nb.String(), Shape: shape, Syntax: syntax}
	}
	if shape == "const-in-multi-row" {
		// a premise with a constant argument over a predicate declared with two bound rows: the constant must not make
		// the analysis drop a row that matches at run time (an enum column of singletons against a name constant typed
		// /name; a joined variable narrower than the row's column)
		type tm struct{ t, m string }
		enum := []tm{{"fn:Union(fn:Singleton(/weight), fn:Singleton(/pages))", "/weight"}, {"fn:Singleton(/weight)", "/weight"}, {"fn:Union(fn:Singleton(/pages), fn:Singleton(/weight))", "/pages"}}
		wide := []tm{{"/name", "/weight"}, {"/name", "/kind/a"}, {"/kind", "/kind/a"}}
		its := []tm{{"/item", "/item/book/b1"}, {"/item/book", "/item/book/b1"}}
		vts := []tm{{"/number", "420"}, {"/string", "\"x\""}}
		var nb strings.Builder
		fmt.Fprintf(&nb, "Decl q(X) descr [extensional()] bound [%s].\n", []string{"/item/book", "/item"}[r.Intn(2)])
		k1, k2 := enum[r.Intn(len(enum))], wide[r.Intn(len(wide))]
		i1, i2 := its[r.Intn(len(its))], its[r.Intn(len(its))]
		vi := r.Intn(2)
		v1, v2 := vts[vi], vts[1-vi]
		rows := []string{fmt.Sprintf("bound [%s, %s, %s]", k1.t, i1.t, v1.t), fmt.Sprintf("bound [%s, %s, %s]", k2.t, i2.t, v2.t)}
		if r.Intn(2) == 0 {
			rows[0], rows[1] = rows[1], rows[0]
		}
		fmt.Fprintf(&nb, "Decl w(K, I, V) descr [extensional()] %s %s.\n", rows[0], rows[1])
		pre := []string{"q(/item/book/b1)", fmt.Sprintf("w(%s, %s, %s)", k1.m, i1.m, v1.m), fmt.Sprintf("w(%s, %s, %s)", k2.m, i2.m, v2.m)}
		lt := []string{"/number", "/string", "fn:Union(/number, /string)"}[r.Intn(3)]
		kc := []string{"/weight", "/pages", "/kind/a"}[r.Intn(3)]
		fmt.Fprintf(&nb, "Decl p(V) bound [%s].\np(V) :- q(I), w(%s, I, V).\n", lt, kc)
		return c11Case{Text: nb.String(), Shape: shape, Syntax: syntax, Preload: pre}
		return c11Case{Text: nb.String(), Shape: shape, Syntax: syntax}
	}
	if shape == "facts-and-rules" {
		// a predicate defined by unit clauses and by rules at once: its unit clauses are base facts and have to be
		// checked against its declaration (or, when it is undeclared, have to count towards its inferred type)
		trie := []string{"/name", "/foo", "/foo/a", "/bar", "/number", "/string", "/any"}
		pick := func() string { return trie[r.Intn(len(trie))] }
		members := map[string][]string{"/name": {"/bar/x", "/foo/y"}, "/foo": {"/foo/y", "/foo/a/z"}, "/foo/a": {"/foo/a/z"}, "/bar": {"/bar/x"}, "/number": {"1", "7"}, "/string": {"\"s\""}, "/any": {"/bar/x", "1", "\"s\""}}
		qt, pt, ft := pick(), pick(), pick()
		fact := members[ft][r.Intn(len(members[ft]))]
		var nb strings.Builder
		fmt.Fprintf(&nb, "Decl q(X) bound [%s].\n", qt)
		for _, m := range members[qt] {
			fmt.Fprintf(&nb, "q(%s).\n", m)
		}
		var cl []string
		if r.Intn(2) == 0 {
			fmt.Fprintf(&nb, "Decl p(X) bound [%s].\n", pt)
			cl = []string{"p(" + fact + ").\n", "p(X) :- q(X).\n"}
		} else {
			fmt.Fprintf(&nb, "Decl out(X) bound [%s].\n", pt)
			cl = []string{"r(" + fact + ").\n", "r(X) :- q(X).\n", "out(X) :- r(X).\n"}
		}
		r.Shuffle(len(cl), func(i, j int) { cl[i], cl[j] = cl[j], cl[i] })
		for _, c := range cl {
			nb.WriteString(c)
		}
		return c11Case{Text: nb.String(), Shape: shape, Syntax: syntax}
	}
	if shape == "recursive-undeclared" {
		// an undeclared recursive predicate whose values change type along the recursion (step has one bound row per
		// hop); its inferred type has to cover every hop, in whichever order its clauses are written
		kinds := [][2]string{{"/number", "1"}, {"/string", "\"a\""}, {"/n", "/n/one"}, {"/m/x", "/m/x/y"}, {"/float64", "2.5"}}
		perm := r.Perm(len(kinds))
		hops := 2 + r.Intn(2)
		var nb strings.Builder
		nb.WriteString("Decl step(X, Y)")
		for h := 0; h < hops; h++ {
			fmt.Fprintf(&nb, " bound [%s, %s]", kinds[perm[h]][0], kinds[perm[h+1]][0])
		}
		nb.WriteString(".\n")
		for h := 0; h < hops; h++ {
			fmt.Fprintf(&nb, "step(%s, %s).\n", kinds[perm[h]][1], kinds[perm[h+1]][1])
		}
		fmt.Fprintf(&nb, "Decl start(X) bound [%s].\nstart(%s).\n", kinds[perm[0]][0], kinds[perm[0]][1])
		rules := []string{"r(X) :- start(X).\n", "r(Y) :- r(X), step(X, Y).\n"}
		if r.Intn(2) == 0 {
			rules[0], rules[1] = rules[1], rules[0]
		}
		if r.Intn(3) == 0 {
			rules[1] = strings.Replace(rules[1], "r(X), step(X, Y)", "step(X, Y), r(X)", 1)
			rules[0] = strings.Replace(rules[0], "r(X), step(X, Y)", "step(X, Y), r(X)", 1)
		}
		nb.WriteString(rules[0] + rules[1])
		covered := 1 + r.Intn(hops+1) // how many of the hop types the declaration of out admits
		nb.WriteString("Decl out(X)")
		if r.Intn(2) == 0 {
			var ts []string
			for h := 0; h < covered; h++ {
				ts = append(ts, kinds[perm[h]][0])
			}
			if len(ts) == 1 {
				fmt.Fprintf(&nb, " bound [%s]", ts[0])
			} else {
				fmt.Fprintf(&nb, " bound [%s]", wrap2(syntax, "Union", ts...))
			}
		} else {
			for h := 0; h < covered; h++ {
				fmt.Fprintf(&nb, " bound [%s]", kinds[perm[h]][0])
			}
		}
		nb.WriteString(".\nout(X) :- r(X).\n")
		return c11Case{Text: nb.String(), Shape: shape, Syntax: syntax}
	}
	if shape == "neg-prefix" {
		// a variable typed as a union of name-prefix types is narrowed by a negated :match_prefix: only a member
		// that lies below the negated prefix may be removed from the union
		trie := []string{"/kind", "/kind/a", "/kind/b", "/kind/a/x", "/kind/b/z", "/other"}
		pick := func() string { return trie[r.Intn(len(trie))] }
		m1, m2 := pick(), pick()
		negp := pick()
		var pb string
		switch r.Intn(4) {
		case 0:
			pb = m1
		case 1:
			pb = m2
		case 2:
			pb = wrap2(syntax, "Union", m1, m2)
		default:
			pb = pick()
		}
		var nb strings.Builder
		if r.Intn(2) == 0 {
			fmt.Fprintf(&nb, "Decl q(X) bound [%s].\n", wrap2(syntax, "Union", m1, m2))
		} else {
			fmt.Fprintf(&nb, "Decl q(X) bound [%s] bound [%s].\n", m1, m2)
		}
		for _, m := range []string{m1, m2} {
			for _, suffix := range []string{"/y/2", "/x/1", "/q"} {
				if r.Intn(2) == 0 {
					fmt.Fprintf(&nb, "q(%s%s).\n", m, suffix)
				}
			}
		}
		fmt.Fprintf(&nb, "Decl p(X) bound [%s].\n", pb)
		if r.Intn(2) == 0 {
			fmt.Fprintf(&nb, "p(X) :- q(X), !:match_prefix(X, %s).\n", negp)
		} else {
			fmt.Fprintf(&nb, "p(X) :- q(X), !:match_prefix(X, %s), !:match_prefix(X, %s).\n", negp, pick())
		}
		return c11Case{Text: nb.String(), Shape: shape, Syntax: syntax}
	}
	ptText := c11TypeText(pt, syntax)
	wrap := func(ctor string, args ...string) string {
		inner := strings.Join(args, ", ")
		if syntax == "dot" {
			return "." + ctor + "<" + inner + ">"
		}
		return "fn:" + ctor + "(" + inner + ")"
	}
	switch shape {
	case "copy", "copy-second-row":
		fmt.Fprintf(&sb, "Decl p(X) bound [%s].\np(X) :- q(X).\n", ptText)
	case "join", "join-rev", "join-two-rows":
		// X is bound by a wider predicate and narrowed by q, which has several bound rows: the inferred
		// type of X is the union of the rows, whichever premise comes first.
		sb.Reset()
		var t2 gen.TermV
		for {
			t2 = gen.RandTypeV(r, 1)
			if c12WellFormed(t2) && !strings.Contains(fmt.Sprint(t2), "fn:Option") {
				break
			}
		}
		jrows := []gen.TermV{t, t2}
		if r.Intn(2) == 0 {
			jrows = []gen.TermV{t2, t}
		}
		var jvals []gen.Val
		for _, row := range jrows {
			c12Members(r, row, 0, &jvals)
		}
		wide := "/any"
		if shape == "join-two-rows" {
			wide = c11TypeText(gen.FnT("fn:Union", t, t2), syntax)
		}
		fmt.Fprintf(&sb, "Decl src(X) bound [%s].\nDecl q(X) bound [%s] bound [%s].\n", wide, c11TypeText(jrows[0], syntax), c11TypeText(jrows[1], syntax))
		for k := 0; k < 4 && len(jvals) > 0; k++ {
			v := jvals[r.Intn(len(jvals))]
			func() {
				defer func() { recover() }()
				cs := v.Const().String()
				sb.WriteString("q(" + cs + ").\nsrc(" + cs + ").\n")
			}()
		}
		if shape == "join-rev" {
			fmt.Fprintf(&sb, "Decl p(X) bound [%s].\np(X) :- q(X), src(X).\n", ptText)
		} else {
			fmt.Fprintf(&sb, "Decl p(X) bound [%s].\np(X) :- src(X), q(X).\n", ptText)
		}
	case "pair":
		fmt.Fprintf(&sb, "Decl p(X) bound [%s].\np(P) :- q(X), P = fn:pair(X, X).\n", wrap("Pair", ptText, ptText))
	case "list":
		fmt.Fprintf(&sb, "Decl p(X) bound [%s].\np(L) :- q(X), L = [X].\n", wrap("List", ptText))
	case "cons":
		fmt.Fprintf(&sb, "Decl p(X) bound [%s].\np(L) :- q(X), L = fn:list:cons(X, []).\n", wrap("List", ptText))
	case "struct":
		if syntax == "dot" {
			fmt.Fprintf(&sb, "Decl p(X) bound [.Struct</a : %s>].\np(S) :- q(X), S = {/a : X}.\n", ptText)
		} else {
			fmt.Fprintf(&sb, "Decl p(X) bound [fn:Struct(/a, %s)].\np(S) :- q(X), S = {/a : X}.\n", ptText)
		}
	case "map":
		fmt.Fprintf(&sb, "Decl p(X) bound [%s].\np(M) :- q(X), M = [/k : X].\n", wrap("Map", "/name", ptText))
	case "member":
		// q holds lists of T; p gets the elements
		sb.Reset()
		lt := gen.FnT("fn:List", t)
		var lvals []gen.Val
		c12Members(r, lt, 0, &lvals)
		fmt.Fprintf(&sb, "Decl q(X) bound [%s].\n", c11TypeText(lt, syntax))
		for k := 0; k < 2 && len(lvals) > 0; k++ {
			v := lvals[r.Intn(len(lvals))]
			func() {
				defer func() { recover() }()
				sb.WriteString("q(" + v.Const().String() + ").\n")
			}()
		}
		fmt.Fprintf(&sb, "Decl p(X) bound [%s].\np(X) :- q(L), :list:member(X, L).\n", ptText)
	case "match-pair":
		sb.Reset()
		pairT := gen.FnT("fn:Pair", t, gen.ConstT(gen.Name("/number")))
		var pvals []gen.Val
		c12Members(r, pairT, 0, &pvals)
		fmt.Fprintf(&sb, "Decl q(X) bound [%s].\n", c11TypeText(pairT, syntax))
		for k := 0; k < 2 && len(pvals) > 0; k++ {
			v := pvals[r.Intn(len(pvals))]
			func() {
				defer func() { recover() }()
				sb.WriteString("q(" + v.Const().String() + ").\n")
			}()
		}
		fmt.Fprintf(&sb, "Decl p(X) bound [%s].\np(X) :- q(P), :match_pair(P, X, Y).\n", ptText)
	case "match-field":
		sb.Reset()
		st := gen.FnT("fn:Struct", gen.ConstT(gen.Name("/a")), t)
		var svals []gen.Val
		c12Members(r, st, 0, &svals)
		fmt.Fprintf(&sb, "Decl q(X) bound [%s].\n", c11TypeText(st, syntax))
		for k := 0; k < 2 && len(svals) > 0; k++ {
			v := svals[r.Intn(len(svals))]
			func() {
				defer func() { recover() }()
				sb.WriteString("q(" + v.Const().String() + ").\n")
			}()
		}
		fmt.Fprintf(&sb, "Decl p(X) bound [%s].\np(X) :- q(S), :match_field(S, /a, X).\n", ptText)
	}
	switch shape {
	case "copy", "copy-second-row", "pair", "list", "cons", "struct", "map":
		sb.WriteString(twinText)
	}
	return c11Case{Text: sb.String(), Shape: shape, Syntax: syntax}
}

func wrap2(syntax, ctor string, args ...string) string {
	inner := strings.Join(args, ", ")
	if syntax == "dot" {
		return "." + ctor + "<" + inner + ">"
	}
	return "fn:" + ctor + "(" + inner + ")"
}

// c11HashTwins returns constants of other kinds whose Hash() equals v's.
func c11HashTwins(v gen.Val) []gen.Val {
	var out []gen.Val
	switch v.K {
	case "num":
		out = append(out, gen.Dur(v.N), gen.TimeV(v.N))
		if v.N == 0 {
			out = append(out, gen.Float(0), gen.ListV(), gen.MapV(), gen.StructV())
		}
	case "dur":
		out = append(out, gen.Num(v.N), gen.TimeV(v.N))
	case "time":
		out = append(out, gen.Num(v.N), gen.Dur(v.N))
	case "name":
		out = append(out, gen.Str(v.S), gen.BytesV([]byte(v.S)))
	case "str":
		out = append(out, gen.BytesV([]byte(v.S)))
		if strings.HasPrefix(v.S, "/") && len(v.S) > 1 && !strings.ContainsAny(v.S, " \"\\\n") {
			out = append(out, gen.Name(v.S))
		}
	case "float":
		if v.Bits == 0 {
			out = append(out, gen.Num(0), gen.ListV(), gen.Dur(0))
		} else {
			out = append(out, gen.Num(int64(v.Bits)))
		}
	case "list", "map", "struct":
		if len(v.Kids) == 0 {
			out = append(out, gen.Num(0), gen.Dur(0), gen.Float(0))
			if v.K != "list" {
				out = append(out, gen.ListV())
			}
		}
	}
	return out
}

func (c11) Decode(raw json.RawMessage) (any, error) {
	var c c11Case
	err := json.Unmarshal(raw, &c)
	return c, err
}

func (c11) Run(cs any) core.Result {
	c := cs.(c11Case)
	var res core.Result
	res.Key = core.HashKey(c.Text)
	res.Ob("shape:"+c.Shape, 1)
	unit, err := parse.Unit(strings.NewReader(c.Text))
	if err != nil {
		res.Ob("skipped:parse-error", 1)
		return res
	}
	pi, err := analysis.AnalyzeAndCheckBounds([]parse.SourceUnit{unit}, nil, analysis.ErrorForBoundsMismatch)
	if err != nil {
		res.Ob("rejected_by_analysis", 1)
		return res
	}
	res.Ob("accepted", 1)
	store := factstore.NewMultiIndexedArrayInMemoryStore()
	for _, t := range c.Preload {
		if tm, err := parse.Term(t); err == nil {
			if a, ok := tm.(ast.Atom); ok {
				store.Add(a)
			}
		}
	}
	if err := engine.EvalProgram(pi, store); err != nil {
		res.Ob("evaluation_error", 1)
		return res
	}
	tc := builtin.NewTypeCheckerFromDesugared(pi.Decls)
	derived := 0
	for _, f := range allFacts(store) {
		if f.Predicate.Symbol != "p" && f.Predicate.Symbol != "q" && f.Predicate.Symbol != "out" && f.Predicate.Symbol != "w" {
			continue
		}
		res.Ob("facts_judged", 1)
		if f.Predicate.Symbol == "p" || f.Predicate.Symbol == "out" {
			derived++
		}
		if err := tc.CheckTypeBounds(f); err != nil {
			sig := "derived-fact-outside-bounds:" + c.Shape
			if f.Predicate.Symbol == "q" || f.Predicate.Symbol == "w" {
				sig = "base-fact-outside-bounds"
				if c.Shape == "type-named-names" {
					sig += ":" + c.Shape
				}
			}
			// diagnosis: would the fact be inside the bounds if map key types were ignored?
			// (conformance treats map keys contravariantly: known finding F7b of C12)
			if c11InsideRelaxed(pi.Decls[f.Predicate], f, true, false) {
				sig = "map-key-contravariance"
			} else if c11InsideRelaxed(pi.Decls[f.Predicate], f, false, true) {
				// conformance lets a struct type that does not mention a field conform to one that
				// constrains it as optional (known finding F7g of C12). A field goes unmentioned only
				// when the types of several structs with different field sets are joined (elements of
				// one list or map); a struct standing alone has a type that mentions all its fields.
				// (For a derived fact the types come from declarations, which may leave a field out.)
				sig = "struct-optional-field-unconstrained"
				if f.Predicate.Symbol != "p" && !c11MixedStructs(f) {
					sig = "struct-optional-field-wrong-type-accepted"
				}
			} else if c11InsideRelaxed(pi.Decls[f.Predicate], f, true, true) {
				sig = "map-key-contravariance+struct-optional-field-unconstrained"
			} else if c11TagWiden = true; c11InsideRelaxed(pi.Decls[f.Predicate], f, false, false) {
				// conformance to a tagged union widens the tag to /name (known finding F7e of C12)
				sig = "tagged-union-tag-widened-to-name"
			}
			c11TagWiden = false
			res.Violate(sig, "the program passes bounds checking in error mode but stores %v, which its own run-time check rejects: %v\nprogram:\n%s", f, err, c.Text)
			return res
		}
	}
	res.NonTrivial = derived > 0
	return res
}

// c11MixedStructs reports whether some list or map inside the fact holds two structs with different field sets.
func c11MixedStructs(f ast.Atom) bool {
	var walk func(c ast.Constant) bool
	fields := func(c ast.Constant) string {
		var ks []string
		c.StructValues(func(k, v ast.Constant) error { ks = append(ks, k.Symbol); return nil }, func() error { return nil })
		sort.Strings(ks)
		return strings.Join(ks, ",")
	}
	// structsIn collects the structs that sit at corresponding type positions below the elements: the
	// elements themselves, and the elements of element lists / values of element maps, recursively (their
	// types are joined when the type of the container is computed, e.g. [[{/a: x}], [{}]]).
	var structsIn func(elems []ast.Constant, out *[]ast.Constant)
	structsIn = func(elems []ast.Constant, out *[]ast.Constant) {
		for _, e := range elems {
			switch e.Type {
			case ast.StructShape:
				*out = append(*out, e)
			case ast.ListShape:
				var sub []ast.Constant
				e.ListValues(func(x ast.Constant) error { sub = append(sub, x); return nil }, func() error { return nil })
				structsIn(sub, out)
			case ast.MapShape:
				var sub []ast.Constant
				e.MapValues(func(k, v ast.Constant) error { sub = append(sub, v); return nil }, func() error { return nil })
				structsIn(sub, out)
			}
		}
	}
	mixed := func(elems []ast.Constant) bool {
		var ss []ast.Constant
		structsIn(elems, &ss)
		seen := ""
		first := true
		for _, e := range ss {
			fs := fields(e)
			if !first && fs != seen {
				return true
			}
			seen, first = fs, false
		}
		return false
	}
	walk = func(c ast.Constant) bool {
		var elems, other []ast.Constant
		switch c.Type {
		case ast.ListShape:
			c.ListValues(func(e ast.Constant) error { elems = append(elems, e); return nil }, func() error { return nil })
		case ast.MapShape:
			c.MapValues(func(k, v ast.Constant) error { elems = append(elems, v); other = append(other, k); return nil }, func() error { return nil })
		case ast.StructShape:
			c.StructValues(func(k, v ast.Constant) error { other = append(other, v); return nil }, func() error { return nil })
		case ast.PairShape:
			a, b, err := c.PairValue()
			if err == nil {
				other = append(other, a, b)
			}
		}
		if mixed(elems) || mixed(other) && c.Type == ast.MapShape {
			return true
		}
		for _, e := range append(elems, other...) {
			if walk(e) {
				return true
			}
		}
		return false
	}
	for _, a := range f.Args {
		if c, ok := a.(ast.Constant); ok && walk(c) {
			return true
		}
	}
	return false
}

// c11InsideRelaxed re-judges the fact against the declaration with every map key
// type and/or every optional field type replaced by /any.
var c11TagWiden bool

func c11InsideRelaxed(decl *ast.Decl, fact ast.Atom, mapKeys, optFields bool) bool {
	if decl == nil {
		return false
	}
	var relax func(t ast.BaseTerm) ast.BaseTerm
	relax = func(t ast.BaseTerm) ast.BaseTerm {
		f, ok := t.(ast.ApplyFn)
		if !ok {
			return t
		}
		args := make([]ast.BaseTerm, len(f.Args))
		for i, a := range f.Args {
			args[i] = relax(a)
		}
		if c11TagWiden && f.Function.Symbol == "fn:TaggedUnion" && len(args) >= 3 {
			var alts []ast.BaseTerm
			for i := 1; i+1 < len(args); i += 2 {
				st, ok := args[i+1].(ast.ApplyFn)
				if !ok {
					continue
				}
				alts = append(alts, ast.ApplyFn{Function: ast.FunctionSym{Symbol: "fn:Struct", Arity: -1}, Args: append([]ast.BaseTerm{args[0], ast.NameBound}, st.Args...)})
			}
			return ast.ApplyFn{Function: ast.FunctionSym{Symbol: "fn:Union", Arity: -1}, Args: alts}
		}
		if mapKeys && f.Function.Symbol == "fn:Map" && len(args) == 2 {
			args[0] = ast.AnyBound
		}
		if optFields && f.Function.Symbol == "fn:opt" && len(args) == 2 {
			args[1] = ast.AnyBound
		}
		return ast.ApplyFn{Function: f.Function, Args: args}
	}
	relaxed := *decl
	relaxed.Bounds = nil
	for _, bd := range decl.Bounds {
		nb := ast.BoundDecl{}
		for _, b := range bd.Bounds {
			nb.Bounds = append(nb.Bounds, relax(b))
		}
		relaxed.Bounds = append(relaxed.Bounds, nb)
	}
	tc := builtin.NewTypeCheckerFromDesugared(map[ast.PredicateSym]*ast.Decl{fact.Predicate: &relaxed})
	return tc.CheckTypeBounds(fact) == nil
}
