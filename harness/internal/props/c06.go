package props

import (
	"encoding/json"
	"fmt"
	"math/rand"
	"runtime"
	"sort"
	"strings"
	"sync"
	"time"

	"codeberg.org/TauCeti/mangle-go/ast"
	"codeberg.org/TauCeti/mangle-go/factstore"

	"verif/internal/canon"
	"verif/internal/core"
	"verif/internal/gen"
)

// C06 — every fact store behaves as a set of ground atoms.

type c06Op struct {
	Op        string      `json:"op"` // add remove contains query list count merge check
	A         *gen.AtomV  `json:"a,omitempty"`
	Pat       *c06Pat     `json:"pat,omitempty"`
	Other     []gen.AtomV `json:"other,omitempty"`
	OtherKind string      `json:"okind,omitempty"`
}

type c06Pat struct {
	P    string     `json:"p"`
	Args []*gen.Val `json:"args"` // nil = variable
}

func (p c06Pat) Atom() ast.Atom {
	args := make([]ast.BaseTerm, len(p.Args))
	for i, v := range p.Args {
		if v == nil {
			args[i] = ast.Variable{Symbol: fmt.Sprintf("X%d", i)}
		} else {
			args[i] = v.Const()
		}
	}
	return ast.Atom{Predicate: ast.PredicateSym{Symbol: p.P, Arity: len(args)}, Args: args}
}

type c06Case struct {
	Kind     string      `json:"kind"`
	Universe string      `json:"universe"` // plain | collide
	Pre      []gen.AtomV `json:"pre,omitempty"`
	// Timed (kind temporal-adapter-teeing only): atoms that the layered temporal store holds with bounded validity
	// intervals, one in the base layer and an overlapping one in the output layer (what evaluating temporal rules over
	// loaded temporal facts leaves behind). To the all-time adapter each of them is one present atom. The history
	// never adds them (the result of adding "for all time" to an atom with bounded validity is not the property's subject).
	Timed []gen.AtomV `json:"timed,omitempty"`
	Ops   []c06Op     `json:"ops"`
}

type c06 struct{}

func init() { core.Register(c06{}) }

func (c06) ID() string { return "C06" }

var c06Kinds = []string{"simple", "indexed", "multi", "multiarray", "merged", "teeing",
	"concurrent-simple", "concurrent-indexed", "concurrent-multi", "concurrent-multiarray", "temporal-adapter", "temporal-adapter-teeing"}

func (c06) Cases(tier string) int {
	if tier == "thorough" {
		return 660000
	}
	return 33000
}

func (c06) Describe() core.Info {
	return core.Info{
		Level: "exploration",
		Rule: "random histories (15-120 ops) of add/remove/contains/query/list/count/merge over a ~40-atom universe (same symbol with arities 0,1,2 and 5,6; all constant kinds; patterns with constants in non-first columns) on 12 store kinds (incl. the temporal adapter over a plain and over a layered temporal store, the latter in half of the plain-universe histories also holding 1-3 atoms with bounded, overlapping validity intervals in both layers, which the all-time adapter has to present as one atom each) x 2 universes (plain: pairwise distinct Atom.Hash; collide: contains hash-equal distinct atoms); oracle = Go map keyed by canonical encoding, layered for merged/teeing; multi-indexed stores additionally walked by the verif index-agreement hook at quiescent points; on the concurrent wrappers the history is followed by a contended phase: 4 goroutines add and remove the same <= 4 atoms at once and, at quiescence, (Adds that returned true) - (Removes that returned true) must equal the change in membership of each atom (exactly-once conservation, no search needed). Non-trivial: history has a remove-then-query or a merge and reaches >= 4 distinct model states; distinct by hash of (kind, op sequence).",
		Assumptions: []string{"canon encoding is injective (unit-tested)", "ListPredicates may list stale empty predicates", "EstimateFactCount of merged/teeing may over-estimate (documented)"},
	}
}

// constant pools
func c06PlainPool() []gen.Val {
	return []gen.Val{gen.Name("/a"), gen.Name("/b"), gen.Name("/a/b"), gen.Str("a"), gen.Str(""), gen.Num(1), gen.Num(2), gen.Num(-7),
		gen.Float(1.5), gen.BytesV([]byte{0, 255}), gen.ListV(gen.Num(1), gen.Num(2)), gen.ListV(), gen.PairV(gen.Name("/a"), gen.Num(3)),
		gen.MapV(gen.Name("/k"), gen.Num(4)), gen.StructV(gen.Name("/f"), gen.Str("v")), gen.TimeV(1700000000_000000000), gen.Dur(3600_000_000_000)}
}

func ones(n int) gen.Val {
	xs := make([]gen.Val, n)
	for i := range xs {
		xs[i] = gen.Num(1)
	}
	return gen.ListV(xs...)
}

func c06CollidePool() []gen.Val {
	return []gen.Val{gen.Num(1), gen.TimeV(1), gen.Dur(1), gen.Float(1.0), gen.Num(4607182418800017408), // bits of 1.0
		gen.ListV(gen.Num(1)), gen.Num(65792), ones(6), ones(7), ones(8), gen.Name("/a"), gen.Str("a"), gen.Num(2),
		gen.Str("/a"), gen.PairV(gen.Num(1), gen.Str("x")), gen.PairV(gen.Num(1+1<<57), gen.Str("x")), gen.ListV(gen.Num(1 + 1<<56))}
}

var c06Preds = []struct {
	p string
	n int
}{{"p", 0}, {"p", 1}, {"p", 2}, {"q", 2}, {"r", 3}, {"z", 0}, {"w", 5}, {"w", 6}}

func c06RandAtom(r *rand.Rand, pool []gen.Val) gen.AtomV {
	pd := c06Preds[r.Intn(len(c06Preds))]
	args := make([]gen.Val, pd.n)
	for i := range args {
		// skew to a small sub-pool so that re-adds and joins hit
		if r.Intn(3) > 0 {
			args[i] = pool[r.Intn(minInt(5, len(pool)))]
		} else {
			args[i] = pool[r.Intn(len(pool))]
		}
	}
	return gen.AtomV{P: pd.p, Args: args}
}

func minInt(a, b int) int {
	if a < b {
		return a
	}
	return b
}

func (c06) Gen(r *rand.Rand, tier string, i int) any {
	c := c06Case{Kind: c06Kinds[i%len(c06Kinds)]}
	pool := c06PlainPool()
	c.Universe = "plain"
	if (i/len(c06Kinds))%3 == 2 {
		c.Universe = "collide"
		pool = c06CollidePool()
	} else {
		// rotate pool so different constants are in the hot sub-pool
		k := r.Intn(len(pool))
		pool = append(append([]gen.Val{}, pool[k:]...), pool[:k]...)
	}
	// working set of atoms
	nAtoms := 6 + r.Intn(30)
	atoms := make([]gen.AtomV, nAtoms)
	for j := range atoms {
		atoms[j] = c06RandAtom(r, pool)
	}
	pick := func() gen.AtomV { return atoms[r.Intn(len(atoms))] }
	if c.Kind == "merged" || c.Kind == "teeing" || c.Kind == "temporal-adapter-teeing" {
		n := r.Intn(8)
		for j := 0; j < n; j++ {
			c.Pre = append(c.Pre, pick())
		}
	}
	timedKeys := map[string]bool{}
	if c.Kind == "temporal-adapter-teeing" && c.Universe == "plain" && r.Intn(2) == 0 {
		n := 1 + r.Intn(3)
		for j := 0; j < n; j++ {
			a := pick()
			k := canon.Atom(a.Atom())
			inPre := false
			for _, p := range c.Pre {
				if canon.Atom(p.Atom()) == k {
					inPre = true
				}
			}
			if !timedKeys[k] && !inPre {
				timedKeys[k] = true
				c.Timed = append(c.Timed, a)
			}
		}
	}
	teeOverlap := r.Intn(4) == 0
	nOps := 15 + r.Intn(106)
	for j := 0; j < nOps; j++ {
		var op c06Op
		switch x := r.Intn(100); {
		case x < 35:
			a := pick()
			op = c06Op{Op: "add", A: &a}
		case x < 50:
			a := pick()
			op = c06Op{Op: "remove", A: &a}
		case x < 62:
			a := pick()
			if r.Intn(4) == 0 {
				a = c06RandAtom(r, pool)
			}
			op = c06Op{Op: "contains", A: &a}
		case x < 85:
			a := pick()
			if r.Intn(5) == 0 {
				a = c06RandAtom(r, pool)
			}
			pat := c06Pat{P: a.P, Args: make([]*gen.Val, len(a.Args))}
			mode := r.Intn(5) // 0: all vars, 1: all consts, 4: one constant column, else random
			one := -1
			if mode == 4 && len(a.Args) > 0 {
				one = r.Intn(len(a.Args))
			}
			for k := range a.Args {
				keep := mode == 1 || k == one || (mode >= 2 && mode < 4 && r.Intn(2) == 0)
				if keep {
					v := a.Args[k]
					pat.Args[k] = &v
				}
			}
			op = c06Op{Op: "query", Pat: &pat}
		case x < 89:
			op = c06Op{Op: "list"}
		case x < 93:
			op = c06Op{Op: "count"}
		case x < 96:
			op = c06Op{Op: "check"}
		default:
			n := r.Intn(6)
			var other []gen.AtomV
			for k := 0; k < n; k++ {
				other = append(other, pick())
			}
			if c.Kind == "teeing" && !teeOverlap {
				// keep most teeing histories clear of the known Merge-duplicates-base-facts finding
				var o2 []gen.AtomV
				for _, a := range other {
					dup := false
					for _, p := range c.Pre {
						if canon.Atom(p.Atom()) == canon.Atom(a.Atom()) {
							dup = true
						}
					}
					if !dup {
						o2 = append(o2, a)
					}
				}
				other = o2
			}
			op = c06Op{Op: "merge", Other: other, OtherKind: baseKinds[r.Intn(len(baseKinds))]}
			if c.Universe == "collide" {
				op.OtherKind = "multiarray" // the source must itself hold the atoms faithfully
			}
		}
		if op.Op == "add" && timedKeys[canon.Atom(op.A.Atom())] {
			op.Op = "contains"
		}
		if op.Op == "merge" && len(timedKeys) > 0 {
			var o2 []gen.AtomV
			for _, a := range op.Other {
				if !timedKeys[canon.Atom(a.Atom())] {
					o2 = append(o2, a)
				}
			}
			op.Other = o2
		}
		c.Ops = append(c.Ops, op)
	}
	return c
}

func (c06) Decode(raw json.RawMessage) (any, error) {
	var c c06Case
	err := json.Unmarshal(raw, &c)
	return c, err
}

type c06Store struct {
	fs      factstore.FactStore
	rm      factstore.FactStoreWithRemove // nil if no Remove
	exact   bool
	indexed factstore.ReadOnlyFactStore // store to hand to the index walker (or nil)
}

func c06Build(kind string, pre []gen.AtomV, timed ...gen.AtomV) c06Store {
	switch {
	case kind == "merged":
		ro := factstore.NewMultiIndexedArrayInMemoryStore()
		for _, a := range pre {
			ro.Add(a.Atom())
		}
		w := factstore.NewMultiIndexedArrayInMemoryStore()
		fs := factstore.NewMergedStore([]factstore.ReadOnlyFactStore{ro}, w)
		rm, _ := fs.(factstore.FactStoreWithRemove)
		return c06Store{fs: fs, rm: rm, indexed: w}
	case kind == "teeing":
		b := factstore.NewMultiIndexedArrayInMemoryStore()
		for _, a := range pre {
			b.Add(a.Atom())
		}
		t := factstore.NewTeeingStore(b)
		return c06Store{fs: t, rm: t, indexed: t.Out}
	case strings.HasPrefix(kind, "concurrent-"):
		b := newBase(strings.TrimPrefix(kind, "concurrent-"))
		cs := factstore.NewConcurrentFactStore(b)
		return c06Store{fs: cs, rm: cs, exact: true, indexed: b}
	case kind == "temporal-adapter":
		ts := factstore.NewTemporalStore()
		return c06Store{fs: factstore.NewTemporalFactStoreAdapter(ts), exact: true}
	case kind == "temporal-adapter-teeing":
		// the adapter over a layered temporal store (the interpreter's configuration): the base layer holds the
		// preloaded atoms for all time, writes go to the output layer
		base := factstore.NewTemporalStore()
		for _, a := range pre {
			base.AddEternal(a.Atom())
		}
		for _, a := range timed {
			base.Add(a.Atom(), ast.TimeInterval(ast.Date(2019, 1, 1), ast.Date(2021, 12, 31)))
		}
		layered := factstore.NewTeeingTemporalStore(base)
		for _, a := range timed {
			layered.Add(a.Atom(), ast.TimeInterval(ast.Date(2021, 1, 1), ast.Date(2024, 12, 31)))
		}
		return c06Store{fs: factstore.NewTemporalFactStoreAdapter(layered)}
	default:
		b := newBase(kind)
		return c06Store{fs: b, rm: b, exact: true, indexed: b}
	}
}

type c06Fail struct {
	step int
	sig  string
	msg  string
}

// c06Exec runs a history and returns the first disagreement with the set model.
func c06Exec(c c06Case, res *core.Result) *c06Fail {
	st := c06Build(c.Kind, c.Pre, c.Timed...)
	R := canon.Set{}
	for _, a := range c.Pre {
		R.Add(a.Atom())
	}
	for _, a := range c.Timed {
		R.Add(a.Atom())
	}
	W := canon.Set{}
	everPred := map[ast.PredicateSym]bool{}
	for _, a := range R {
		everPred[a.Predicate] = true
	}
	visible := func(a ast.Atom) bool { return R.Has(a) || W.Has(a) }
	states := map[string]bool{}
	kc := c.Kind
	if strings.HasPrefix(kc, "concurrent-") {
		kc = "concurrent"
	}
	removedSince := false
	// stores that were merged into the store under test stay alive: the two must remain independent
	type c06Source struct {
		store factstore.FactStoreWithRemove
		want  canon.Set
		step  int
	}
	var sources []*c06Source
	checkSources := func(i int) *c06Fail {
		for _, src := range sources {
			got := canon.Set{}
			for _, f := range allFacts(src.store) {
				got.Add(f)
			}
			if miss, extra := canon.Diff(src.want, got, 4); len(miss) > 0 || len(extra) > 0 {
				return &c06Fail{i, kc + ":merge:source-store-changed", fmt.Sprintf("step %d: the store that was merged in at step %d is no longer what it was: lost %v, gained %v (the two stores share state)", i, src.step, miss, extra)}
			}
		}
		return nil
	}
	for i, op := range c.Ops {
		if i > 0 {
			if f := checkSources(i - 1); f != nil {
				return f
			}
		}
		switch op.Op {
		case "add":
			a := op.A.Atom()
			everPred[a.Predicate] = true
			want := !visible(a)
			got := st.fs.Add(a)
			if want {
				W.Add(a)
			}
			if got != want {
				return &c06Fail{i, kc + ":add:returned-" + fmt.Sprint(got), fmt.Sprintf("step %d: Add(%v) returned %v, atom was %s", i, a, got, map[bool]string{true: "absent", false: "present"}[want])}
			}
		case "remove":
			if st.rm == nil {
				continue
			}
			a := op.A.Atom()
			want := W.Has(a)
			got := st.rm.Remove(a)
			delete(W, canon.Atom(a))
			removedSince = true
			// The return value of Remove is specified for plain stores only ("true if
			// that fact was present"); wrappers over a read-only layer document that
			// they may not support removal properly, and C06 does not state it.
			if st.exact && got != want {
				return &c06Fail{i, kc + ":remove:returned-" + fmt.Sprint(got), fmt.Sprintf("step %d: Remove(%v) returned %v, atom was in write layer: %v", i, a, got, want)}
			}
		case "contains":
			a := op.A.Atom()
			want := visible(a)
			got := st.fs.Contains(a)
			if got != want {
				return &c06Fail{i, kc + ":contains:" + fmt.Sprint(got), fmt.Sprintf("step %d: Contains(%v) = %v, model says %v", i, a, got, want)}
			}
		case "query":
			q := op.Pat.Atom()
			want := canon.Set{}
			for _, set := range []canon.Set{R, W} {
				for _, a := range set {
					if a.Predicate == q.Predicate && c06Matches(*op.Pat, a) {
						want.Add(a)
					}
				}
			}
			got := map[string]int{}
			gotSet := canon.Set{}
			err := st.fs.GetFacts(q, func(a ast.Atom) error {
				got[canon.Atom(a)]++
				gotSet.Add(a)
				return nil
			})
			if err != nil {
				return &c06Fail{i, kc + ":query:error", fmt.Sprintf("step %d: GetFacts(%v) error %v", i, q, err)}
			}
			for k, n := range got {
				if n > 1 {
					return &c06Fail{i, kc + ":query:duplicate", fmt.Sprintf("step %d: GetFacts(%v) yielded %v %d times", i, q, gotSet[k], n)}
				}
			}
			miss, extra := canon.Diff(want, gotSet, 5)
			if len(miss) > 0 {
				return &c06Fail{i, kc + ":query:missing", fmt.Sprintf("step %d: GetFacts(%v) missed %v", i, q, miss)}
			}
			if len(extra) > 0 {
				return &c06Fail{i, kc + ":query:extra", fmt.Sprintf("step %d: GetFacts(%v) yielded non-matching/absent %v", i, q, extra)}
			}
			if removedSince {
				res.Ob("query_after_remove", 1)
			}
			res.Ob("queries_checked", 1)
		case "list":
			listed := map[ast.PredicateSym]bool{}
			for _, p := range st.fs.ListPredicates() {
				listed[p] = true
				if !everPred[p] {
					return &c06Fail{i, kc + ":list:unknown-predicate", fmt.Sprintf("step %d: ListPredicates lists %v which was never added", i, p)}
				}
			}
			for _, set := range []canon.Set{R, W} {
				for _, a := range set {
					if !listed[a.Predicate] {
						return &c06Fail{i, kc + ":list:missing-predicate", fmt.Sprintf("step %d: ListPredicates omits %v/%d although %v is stored", i, a.Predicate.Symbol, a.Predicate.Arity, a)}
					}
				}
			}
		case "count":
			got := st.fs.EstimateFactCount()
			vis := len(W)
			for k := range R {
				if _, ok := W[k]; !ok {
					vis++
				}
			}
			if st.exact {
				if got != len(W) {
					return &c06Fail{i, kc + ":count", fmt.Sprintf("step %d: EstimateFactCount = %d, model holds %d", i, got, len(W))}
				}
			} else if got < vis {
				return &c06Fail{i, kc + ":count-under", fmt.Sprintf("step %d: EstimateFactCount = %d < %d visible facts", i, got, vis)}
			}
		case "check":
			if st.indexed != nil {
				n, err := factstore.VerifCheckIndexes(st.indexed)
				if err != nil {
					return &c06Fail{i, kc + ":index-invariant", fmt.Sprintf("step %d: index walker: %v", i, err)}
				}
				if n >= 0 {
					res.Ob("index_walks", 1)
				}
			}
		case "merge":
			other := newBase(op.OtherKind)
			for _, a := range op.Other {
				at := a.Atom()
				other.Add(at)
				everPred[at.Predicate] = true
			}
			st.fs.Merge(other)
			for _, a := range op.Other {
				at := a.Atom()
				if !visible(at) {
					W.Add(at)
				}
			}
			res.Ob("merges", 1)
			// afterwards the source gets an atom of its own: the store under test must not see it
			src := &c06Source{store: other, want: canon.Set{}, step: i}
			for _, a := range op.Other {
				src.want.Add(a.Atom())
			}
			for _, a := range op.Other {
				m := a.Atom()
				m.Args = append([]ast.BaseTerm{}, m.Args...)
				if len(m.Args) == 0 {
					continue
				}
				m.Args[len(m.Args)-1] = ast.String(fmt.Sprintf("only-in-source-%d", i))
				if visible(m) || src.want.Has(m) {
					continue
				}
				other.Add(m)
				src.want.Add(m)
				if st.fs.Contains(m) {
					return &c06Fail{i, kc + ":merge:sees-later-change-of-source", fmt.Sprintf("step %d: %v was added to the merged-in store after Merge and is now contained in the store under test (the two stores share state)", i, m)}
				}
				break
			}
			sources = append(sources, src)
		}
		states[strings.Join(W.Keys(), "")] = true
	}
	if f := checkSources(len(c.Ops) - 1); f != nil {
		return f
	}
	if strings.HasPrefix(c.Kind, "concurrent-") && c.Universe == "plain" && st.rm != nil {
		if f := c06Contended(c, st, W, kc, res); f != nil {
			return f
		}
	}
	res.Ob("model_states", len(states))
	if len(states) >= 4 {
		res.NonTrivial = true
	}
	return nil
}

// c06Contended: after the sequential history, several goroutines add and remove the same few atoms of the
// concurrent wrapper at the same time. Whatever the schedule, "add reports true exactly when the atom was
// absent" implies a conservation law per atom: (adds that returned true) - (removes that returned true)
// = membership afterwards - membership before. The law is checked at quiescence; it needs no search.
func c06Contended(c c06Case, st c06Store, W canon.Set, kc string, res *core.Result) *c06Fail {
	var atoms []ast.Atom
	seen := map[string]bool{}
	for _, op := range c.Ops {
		if op.A == nil {
			continue
		}
		a := op.A.Atom()
		if k := canon.Atom(a); !seen[k] {
			seen[k] = true
			atoms = append(atoms, a)
		}
		if len(atoms) == 4 {
			break
		}
	}
	if len(atoms) == 0 {
		return nil
	}
	before := make([]bool, len(atoms))
	for i, a := range atoms {
		before[i] = W.Has(a)
	}
	const G, rounds = 4, 12
	type tally struct{ adds, removes []int }
	tallies := make([]tally, G)
	var wg sync.WaitGroup
	startGate := make(chan struct{})
	for g := 0; g < G; g++ {
		tallies[g] = tally{make([]int, len(atoms)), make([]int, len(atoms))}
		wg.Add(1)
		go func(g int) {
			defer wg.Done()
			rr := rand.New(rand.NewSource(int64(len(c.Ops))*131 + int64(g)))
			<-startGate
			for k := 0; k < rounds; k++ {
				for _, i := range rr.Perm(len(atoms)) {
					if rr.Intn(3) == 0 {
						if st.rm.Remove(atoms[i]) {
							tallies[g].removes[i]++
						}
					} else if st.fs.Add(atoms[i]) {
						tallies[g].adds[i]++
					}
					if rr.Intn(2) == 0 {
						runtime.Gosched()
					}
				}
			}
		}(g)
	}
	close(startGate)
	wg.Wait()
	res.Ob("contended_phases", 1)
	res.Ob("contended_operations", G*rounds*len(atoms))
	for i, a := range atoms {
		adds, removes := 0, 0
		for g := 0; g < G; g++ {
			adds += tallies[g].adds[i]
			removes += tallies[g].removes[i]
		}
		after := st.fs.Contains(a)
		b2i := map[bool]int{false: 0, true: 1}
		if adds > 1 || removes > 0 {
			res.Ob("contended_atoms_with_competing_successes", 1)
		}
		if adds-removes != b2i[after]-b2i[before[i]] {
			return &c06Fail{len(c.Ops) - 1, kc + ":contended:add-remove-not-conserved", fmt.Sprintf("after the history, %d goroutines added and removed %v concurrently: Add returned true %d times and Remove returned true %d times, but the atom was %s before and is %s afterwards (schedule dependent: the replay may need repetition)", G, a, adds, removes, map[bool]string{true: "present", false: "absent"}[before[i]], map[bool]string{true: "present", false: "absent"}[after])}
		}
		// keep the model in step for anything that follows
		if after {
			W.Add(a)
		} else {
			delete(W, canon.Atom(a))
		}
	}
	return nil
}

func c06Matches(p c06Pat, a ast.Atom) bool {
	for i, v := range p.Args {
		if v == nil {
			continue
		}
		c, ok := a.Args[i].(ast.Constant)
		if !ok || canon.Const(v.Const()) != canon.Const(c) {
			return false
		}
	}
	return true
}

// c06Collisions lists classes of >=2 distinct atoms with equal Atom.Hash() that the history touches.
func c06Collisions(c c06Case) map[uint64][]string {
	byHash := map[uint64]map[string]bool{}
	add := func(a gen.AtomV) {
		at := a.Atom()
		h := at.Hash()
		if byHash[h] == nil {
			byHash[h] = map[string]bool{}
		}
		byHash[h][at.Predicate.Symbol+"/"+fmt.Sprint(at.Predicate.Arity)+canon.Atom(at)] = true
	}
	for _, a := range c.Pre {
		add(a)
	}
	for _, op := range c.Ops {
		if op.A != nil {
			add(*op.A)
		}
		for _, a := range op.Other {
			add(a)
		}
	}
	out := map[uint64][]string{}
	for h, m := range byHash {
		if len(m) >= 2 {
			for k := range m {
				out[h] = append(out[h], k)
			}
			sort.Strings(out[h])
		}
	}
	return out
}

// c06DropCollisions removes all operations on atoms that are not the first
// representative (in canonical order) of their hash class.
func c06DropCollisions(c c06Case) c06Case {
	col := c06Collisions(c)
	drop := map[string]bool{}
	for _, ks := range col {
		for _, k := range ks[1:] {
			drop[k] = true
		}
	}
	key := func(a gen.AtomV) string {
		at := a.Atom()
		return at.Predicate.Symbol + "/" + fmt.Sprint(at.Predicate.Arity) + canon.Atom(at)
	}
	out := c06Case{Kind: c.Kind, Universe: c.Universe, Timed: c.Timed}
	for _, a := range c.Pre {
		if !drop[key(a)] {
			out.Pre = append(out.Pre, a)
		}
	}
	for _, op := range c.Ops {
		if op.A != nil && drop[key(*op.A)] {
			continue
		}
		if op.Op == "merge" {
			var o []gen.AtomV
			for _, a := range op.Other {
				if !drop[key(a)] {
					o = append(o, a)
				}
			}
			op.Other = o
		}
		out.Ops = append(out.Ops, op)
	}
	return out
}

func (c06) Run(cs any) core.Result {
	c := cs.(c06Case)
	var res core.Result
	start := time.Now()
	_ = start
	fail := c06Exec(c, &res)
	res.Key = core.HashKey(c.Kind, fmt.Sprint(c.Ops))
	res.Ob("kind:"+c.Kind, 1)
	res.Ob("universe:"+c.Universe, 1)
	hasRQ := false
	sawRemove := false
	for _, op := range c.Ops {
		if op.Op == "remove" {
			sawRemove = true
		}
		if (op.Op == "query" && sawRemove) || op.Op == "merge" {
			hasRQ = true
		}
	}
	res.NonTrivial = res.NonTrivial && hasRQ
	if fail == nil {
		return res
	}
	// shrink: truncate after the failing step, then greedily delete ops while the same signature fails
	min := c
	min.Ops = append([]c06Op{}, c.Ops[:fail.step+1]...)
	cur := fail
	for i := len(min.Ops) - 2; i >= 0; i-- {
		try := min
		try.Ops = append(append([]c06Op{}, min.Ops[:i]...), min.Ops[i+1:]...)
		var scratch core.Result
		if f := c06Exec(try, &scratch); f != nil && f.sig == cur.sig {
			min = try
			min.Ops = min.Ops[:f.step+1]
			cur = f
			if i > len(min.Ops)-1 {
				i = len(min.Ops) - 1
			}
		}
	}
	for oi := range min.Ops {
		if min.Ops[oi].Op != "merge" {
			continue
		}
		for k := len(min.Ops[oi].Other) - 1; k >= 0; k-- {
			try := min
			try.Ops = append([]c06Op{}, min.Ops...)
			o := min.Ops[oi]
			o.Other = append(append([]gen.AtomV{}, o.Other[:k]...), o.Other[k+1:]...)
			try.Ops[oi] = o
			var scratch core.Result
			if f := c06Exec(try, &scratch); f != nil && f.sig == cur.sig {
				min = try
				cur = f
			}
		}
	}
	for i := len(min.Pre) - 1; i >= 0; i-- {
		try := min
		try.Pre = append(append([]gen.AtomV{}, min.Pre[:i]...), min.Pre[i+1:]...)
		var scratch core.Result
		if f := c06Exec(try, &scratch); f != nil && f.sig == cur.sig {
			min = try
			cur = f
		}
	}
	sig := cur.sig
	// diagnosis: hash-equal distinct atoms conflated by a hash-keyed store
	base := strings.TrimPrefix(c.Kind, "concurrent-")
	hashKeyedKind := base == "simple" || base == "indexed" || base == "multi" || base == "temporal-adapter" || base == "temporal-adapter-teeing"
	if hashKeyedKind {
		if col := c06Collisions(min); len(col) > 0 {
			var scratch core.Result
			if c06Exec(c06DropCollisions(min), &scratch) == nil {
				sig = "hash-collision:" + base
			}
		}
	}
	// diagnosis: TeeingStore.Merge copies facts the base already holds into Out
	if sig == "teeing:query:duplicate" && len(min.Ops) == 2 && min.Ops[0].Op == "merge" && len(min.Pre) == 1 &&
		len(min.Ops[0].Other) >= 1 {
		pre := canon.Atom(min.Pre[0].Atom())
		all := true
		for _, o := range min.Ops[0].Other {
			if canon.Atom(o.Atom()) != pre {
				all = false
			}
		}
		if all {
			sig = "teeing:merge-copies-base-fact"
		}
	}
	raw, _ := json.Marshal(min)
	res.Violations = append(res.Violations, core.Violation{Sig: sig, Msg: cur.msg + fmt.Sprintf(" [kind=%s, minimised to %d ops]", c.Kind, len(min.Ops)), Witness: raw})
	return res
}
