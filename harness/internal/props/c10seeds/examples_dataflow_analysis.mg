# This is an example how dataflow analysis would look in datalog

# The example is adapted from https://souffle-lang.github.io/examples
# Encoded code fragment:
#
#   v1 = h1();
#   v2 = h2();
#   v1 = v2;
#   v3 = h3();
#   v1.f = v3;
#   v4 = v1.f;

Decl assign(VarL, VarR)
  bound [/v, /v].

Decl new(Var, Obj)
  bound [/v, /name].

Decl load(VarL, VarR, Field)
  bound [/v, /v, /field].

Decl store(VarL, Field, VarR)
  bound [/v, /field, /v].

# Facts

assign(/v/1,/v/2).

new(/v/1, /h/1).
new(/v/2, /h/2).
new(/v/3, /h/3).

store(/v/1, /field/f, /v/3).
load(/v/4, /v/1, /field/f).

# Analysis
Decl alias(Var1, Var2)
  bound [/v, /v].

alias(X,X) :- assign(X,_).
alias(X,X) :- assign(_,X).
alias(X,Y) :- assign(X,Y).
alias(X,Y) :- load(X,A,F), alias(A,B), store(B,F,Y).


Decl pointsTo(Var, Obj)
  bound [/v, /name].

pointsTo(X,Y) :- new(X,Y).
pointsTo(X,Y) :- alias(X,Z), pointsTo(Z,Y).


# Our "sum type" is add a prefix /instr
# /instr/read
# /instr/write
# /instr/jump

# Facts
Decl read(InstrRead, Var)
  bound [/instr/read, /v].
Decl write(InstrWrite, Var)
  bound [/instr/write, /v].
Decl succ(Instr1, Instr2)
  bound [/instr, /instr].

read(/instr/read/1, /v/1).
read(/instr/read/2, /v/1).
read(/instr/read/3, /v/2).
write(/instr/write/1, /v/1).
write(/instr/write/2, /v/2).
write(/instr/write/3, /v/2).

succ(/instr/write/1, /instr/o1).
succ(/instr/o1, /instr/read/1).
succ(/instr/o1, /instr/read/2).
succ(/instr/read/2, /instr/read/3).
succ(/instr/read/3, /instr/write/2).

# Analysis

Decl flow(Instr1, Intr2)
  bound [/instr, /instr].

flow(X,Y) :- succ(X,Y).
flow(X,Z) :- flow(X,Y), flow(Y,Z).

Decl defUse(InstrWrite , InstrRead)
  bound [/instr/write, /instr/read].

defUse(W,R) :- write(W,X), flow(W,R), read(R,X).
