# Test case for issue #25 - duplicate declarations should cause an error

Decl foo(X, Y, Z) descr [ extensional() ] bound [/x, /y, /z].

# This should cause an error - duplicate declaration
Decl foo(X, Y, Z) descr [ extensional() ].

foo(1, 2, 3).