# We gradually build up a database of people and topics
# they might be in an expert in (/knows) or enjoy doing (/likes).

# observed(Subject, Verb, Topic, Weight, Description).

# We add a weight to each edge positive or negative evidence.
# This is very crude, but may still be more insightful to
# expose and critique the reasoning than feeding an AI chatbot
# with textual descriptions.

observed(/john, /knows, /cooking, 1, "Has lots of books").
observed(/john, /likes, /cooking, -1, "Has not been reading them.").

observed(/ahmed, /knows, /cooking, 1, "Is cooking regularly.").
observed(/ahmed, /knows, /cooking, -1, "He does not try out any new things.").
observed(/ahmed, /likes, /cooking, 1, "He invites friends over to cook together.").

observed(/mia, /knows, /management, -1, "Does not have a lot of experience.").
observed(/mia, /knows, /management, -1, "She rarely presents her team's work.").
observed(/mia, /likes, /management, 1, "She enjoys helping her people grow.").

# Now, let's add all the weights.

aggregated(Subject, Verb, Topic, Sum)
  :- observed(Subject, Verb, Topic, Weight, _)
  |> do fn:group_by(Subject, Verb, Topic), let Sum = fn:sum(Weight).

filtered(Subject, Verb, Topic)
  :- aggregated(Subject, Verb, Topic, Sum), Sum >= 1.
