foo() :- :filter(fn:list:contains([], 23)).
