Decl f(R)
  descr [
    mode("+")
  ]
  bound [.Struct</g : .List</string>>].

f(R) :-
  :match_field(R, /g, G),
  fn:list:len(G) > 0.
