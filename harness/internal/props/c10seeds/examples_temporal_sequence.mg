# Temporal Sequence Example: Event A followed by Event B within 10 minutes.
#
# This example demonstrates how to use temporal facts and interval arithmetic
# to detect a sequence of events with a time constraint.

Decl event_a(Name) temporal bound [/name].
Decl event_b(Name) temporal bound [/name].
Decl match(Name) bound [/name].

# Event A happens at 10:00:00 for user /u1
event_a(/u1)@[2024-01-01T10:00:00].

# Event B happens at 10:05:00 for user /u1 (within 10 mins of A)
event_b(/u1)@[2024-01-01T10:05:00].

# Event A happens at 10:00:00 for user /u2
event_a(/u2)@[2024-01-01T10:00:00].

# Event B happens at 10:15:00 for user /u2 (15 mins after A - too late)
event_b(/u2)@[2024-01-01T10:15:00].

# Match rule:
# 1. B happened at time Tb
# 2. A happened at time Ta
# 3. A happened before B (:time:lt)
# 4. Duration between A and B is <= 10 minutes
match(U) :-
  event_b(U)@[Tb],
  event_a(U)@[Ta],
  :time:lt(Ta, Tb),
  Diff = fn:time:sub(Tb, Ta),
  Limit = fn:duration:parse('10m'),
  :duration:le(Diff, Limit).
