Decl o(Owner) bound[/number].

foo(X) :- 
  o(O), 
  :match_pair(O, A, X), .