# Example demonstrating the new fn:collect_to_map reducer function
# This shows how to aggregate results into a map structure.

# Sample data: users and their preferred programming languages
user_language(/alice, /python).
user_language(/alice, /go).
user_language(/bob, /javascript).
user_language(/bob, /typescript).
user_language(/charlie, /rust).

# Sample data: languages and their popularity scores
language_popularity(/python, 95).
language_popularity(/go, 85).
language_popularity(/javascript, 90).
language_popularity(/typescript, 88).
language_popularity(/rust, 80).

# Collect all languages for each user into a list (existing functionality)
user_languages_list(User, Languages)
  :- user_language(User, Language)
  |> do fn:group_by(User), let Languages = fn:collect(Language).

# NEW: Collect language preferences as a map with popularity scores
# This creates a map from language to popularity score for each user
user_language_scores(User, LanguageScoreMap)
  :- user_language(User, Language),
     language_popularity(Language, Score)
  |> do fn:group_by(User), let LanguageScoreMap = fn:collect_to_map(Language, Score).

# Another example: Create a map from user to their highest-scored language
# First find the max score per user
user_max_score(User, MaxScore)
  :- user_language(User, Language),
     language_popularity(Language, Score)
  |> do fn:group_by(User), let MaxScore = fn:max(Score).

# Then create a user-to-top-language map
top_language_per_user(UserLanguageMap)
  :- user_language(User, Language),
     language_popularity(Language, Score),
     user_max_score(User, Score)  # Only take languages with max score
  |> do fn:group_by(), let UserLanguageMap = fn:collect_to_map(User, Language).