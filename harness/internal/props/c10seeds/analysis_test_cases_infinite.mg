# The following is not a datalog program.
# It uses function symbols and does not terminate.
# We should still be able to type-check it, though.

Decl p(N)
  bound [/number].

p(0).
p(X) :- p(Y), X = fn:plus(Y, 1).
