# An example that shows how we can collect results.
# This is not how ticket pricing works for Swiss trains.

# A list of train connections between cities where we
# do not have to change trains, with prices in CHF.
direct_conn(/code/zl, /zurich, /lausanne, 60).
direct_conn(/code/zb, /zurich, /bern, 30).
direct_conn(/code/bl, /bern, /lausanne, 30).

# We want to retrieve all possibilities of reaching
# cities that would require not more than one change of trains.

# The first possibility is that there is a direct connection.
one_or_two_leg_trip(Codes, Start, Destination, Price) :-
  direct_conn(Code, Start, Destination, Price)
  |> let Codes = [Code].

# The second possibility is that we have to change trains somewhere.
one_or_two_leg_trip(Codes, Start, Destination, Price) :-
  direct_conn(FirstCode, Start, Connecting, FirstLegPrice),
  direct_conn(SecondCode, Connecting, Destination, SecondLegPrice)
  |> let Codes = [FirstCode, SecondCode],
     let Price = fn:plus(FirstLegPrice, SecondLegPrice).
