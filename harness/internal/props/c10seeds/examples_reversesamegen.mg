# This is an example from the Alice Book (Foundations of Databases), Ch. 13
# We have partial information on ancestor same generation relationships
# and want to get a complete picture.

up(/a, /e).
up(/a, /f).
up(/f, /m).
up(/g, /n).
up(/h, /n).
up(/i, /o).
up(/j, /o).

flat(/g, /f).
flat(/m, /n).
flat(/m, /o).
flat(/p, /m).

down(/l, /f).
down(/m, /f).
down(/g, /b).
down(/h, /c).
down(/i, /d).
down(/p, /k).

rsg(X, Y) :- flat(X, Y).
rsg(X, Y) :- up(X, X1), rsg(Y1, X1), down(Y1, Y).
