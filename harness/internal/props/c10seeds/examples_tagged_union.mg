# Tagged unions (internally-tagged discriminated unions).
#
# A tagged union is a type where a designated tag field inside a struct
# determines which variant is active. The value is an ordinary struct
# with the tag field plus the variant's fields.
#
# Syntax: .TaggedUnion<tag_field, /variant1 : .Struct<...>, /variant2 : .Struct<...>>

# --- API message type ---
#
# Models a JSON API message with internally-tagged variants.
# The /type field is the discriminator.

Decl api_message(M)
  bound[
    .TaggedUnion</type,
      /create : .Struct</name : /string, /count : /number>,
      /delete : .Struct</id : /number>,
      /ping   : .Struct<>
    >
  ].

api_message({/type: /create, /name: "widget", /count: 5}).
api_message({/type: /create, /name: "gadget", /count: 12}).
api_message({/type: /delete, /id: 42}).
api_message({/type: /ping}).

# Extracting the tag lets us dispatch on the message type.
Decl message_type(M, T)
  bound[
    .TaggedUnion</type,
      /create : .Struct</name : /string, /count : /number>,
      /delete : .Struct</id : /number>,
      /ping   : .Struct<>
    >,
    /name
  ].
message_type(M, T) :- api_message(M), :match_field(M, /type, T).

# --- Rich event type with optional and list fields ---
#
# Demonstrates opt (optional fields) and .List inside a tagged union.

Decl event(E)
  bound[
    .TaggedUnion</kind,
      /user_login  : .Struct</user_id : /number, opt /ip_address : /string>,
      /user_logout : .Struct</user_id : /number>,
      /bulk_import : .Struct</items : .List</string>, opt /dry_run : .Union<.Singleton</true>, .Singleton</false>>>
    >
  ].

event({/kind: /user_login, /user_id: 101, /ip_address: "10.0.0.1"}).
event({/kind: /user_login, /user_id: 102}).
event({/kind: /user_logout, /user_id: 101}).
event({/kind: /bulk_import, /items: ["a", "b", "c"], /dry_run: /true}).
event({/kind: /bulk_import, /items: ["x"]}).

# Extract login user IDs.
Decl login_user(U)
  bound [/number].
login_user(U) :-
  event(E),
  :match_field(E, /kind, K), K = /user_login,
  :match_field(E, /user_id, U).

# Count items in bulk imports.
Decl bulk_import_size(Items, N)
  bound[.List</string>, /number].
bulk_import_size(Items, N) :-
  event(E),
  :match_field(E, /kind, K), K = /bulk_import,
  :match_field(E, /items, Items)
  |> let N = fn:list:len(Items).
