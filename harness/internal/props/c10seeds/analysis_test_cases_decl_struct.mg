Decl o(O, P)
  bound[
    .Struct<opt /foo : /string>,
    .Struct<
        /inputs: .List<
            .Struct<
                /type: /string,
                /repeated: .Union<.Singleton</true>, .Singleton</false>>
            >
        >,
        /output_type: /string,
      >
  ].

