Decl volunteer_interest(Volunteer, Skill)
  bound [ /v, /skill ].

# This does not look right.
volunteer_interest(/v/1, /monday).

