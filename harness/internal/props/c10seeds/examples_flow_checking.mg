# In the following, we develop a simple form of "flow checking", a form of
# static analysis that checks whether a program is free of a specified class
# of bugs.
# This intraprocedural analysis (only one function body) and does not deal with
# loops.

# We assume a program that is type-checked and has been in a CFG where
# all complex operations have been reduced and intermediate results named.
#
# A pointer has an associated heap type, which is either int or a record
# type with members.

heap_type(/i32).
heap_type(/Box_i32).

type(/i32ptr).
type(X) :- heap_type(X).

# The /Box_i32 type has a single member, .ptr, which is a pointer i32*
members(/Box_i32, ".ptr").

# Variables, including temporaries.
variable("b1").
variable("b2").
variable("tmp1").
variable("tmp2").

var_type("b1", /Box_i32).
var_type("b2", /Box_i32).
var_type("tmp1", /i32ptr).
var_type("tmp1", /i32).

#
# Whenever we have a variable with region of a type with members, then
# we also have a "projection" region.
#
variable_region_projection(Var, Region, Member, MemberRegion) :-
  variable_region(Var, Region),
  var_type(Var, Type),
  members(Type, Member)
  |> let MemberRegion = fn:string:concat(Region, Member).


# Program Point - instruction mapping.
#
# "move" var var: assigning variable to another, destructive move (/Box_i32)
#
#    before the move, y.ptr must be valid. 
#    open: x.ptr may not need to be valid?
#    x = y includes x.destroy, invalidating x.ptr.
#    open: support a move where x.ptr does not need to be valid?
#
#    after the move, x.ptr has been assigned y.ptr and is valid
#    y.ptr is invalid.
#
# "copy" var var: assigning variable to another, copy (/i32 and /i32ptr)
# "alloc" var type region: allocate and assign to var (/Box_i32)
# "store" var member rhsvar: instructions assign to fields (/Box_i32)
# "load" var var member: copy-assign after member access (/i32 or /i32ptr)
# "deref" dereferences a pointer (only /i32ptr)

edge(/p_entry, /p1).

#
# var b1 = Box_i32::Make()
#
pp_instr(/p1, { /var: "b1", /instr: "alloc", /type: "/Box_i32", /region: "^A1" }).
edge(/p1, /p1mid).
edge(/p1mid, /p2).

#
# var b2 = Box_i32::Make()
#
pp_instr(/p2, { /var: "b2", /instr: "alloc", /type: "/Box_i32", /region: "^A2" }).
edge(/p2, /p2mid).
edge(/p2mid, /p3).

#
# b1 = b2
#
pp_instr(/p3, { /var: "b1", /instr: "move", /rhs: "b2" }).
edge(/p3, /p3mid).
edge(/p3mid, /p4).

#
# tmp1 = b2.ptr
#
pp_instr(/p4, { /var: "tmp1", /instr: "load", /rhs: "b2", /member: ".ptr" }).
edge(/p4, /p4mid).
edge(/p4mid, /p5).

#
# tmp2 = *tmp1
#
pp_instr(/p5, { /var: "tmp2", /instr: "deref", /rhs: "tmp1" }).
edge(/p5, /p5mid).
edge(/p5mid, /p6).

#
# b1 = b2
#
pp_instr(/p6, { /var: "b1", /instr: "move", /rhs: "b2" }).
edge(/p6, /p6mid).
edge(/p6mid, /p_pexit).

#
# Rules
#

pp_var_region(/p_entry, Var, Region) :- variable_region(Var, Region).

pp_var_region(/p_entry, FakeVar, MemberRegion) :-
  variable_region_projection(Var, Region, Member, MemberRegion),
  FakeVar = fn:string:concat("fake-", MemberRegion).

pp_var_region(P, Var, Region) :-
  edge(/p_entry, P),
  pp_var_region(/p_entry, Var, Region).

# alloc:
#
# For an alloc instruction "x = alloc ...", use the region from alloc operation.
# This is based on the declaration. The region in the alloc instruction is
# fresh, ie. the name is different from regions of other variables.
#
pp_var_region(Pmid, Var, Region) :-
  pp_instr(P, Instr),
  edge(P, Pmid),
  :match_field(Instr, /var, Var),
  :match_field(Instr, /instr, Op), Op = "alloc",
  :match_field(Instr, /region, Region).


# move:
#
# For a move instruction "x = y":

# 1. mark the region of y as invalid.
#
invalid_region(Pmid, MovedVar, MovedRegion) :-
  pp_instr(P, Instr),
  edge(P, Pmid),
  :match_field(Instr, /var, Var),
  :match_field(Instr, /instr, Op), Op = "move",
  :match_field(Instr, /rhs, MovedVar),
  var_type(Var, /Box_i32),
  pp_var_region(P, MovedVar, MovedRegion).

# move: (ctd.)
#
# Propagate all mappings
#
pp_var_region(Pmid, Var, Region) :-
  pp_instr(P, Instr),
  edge(P, Pmid),
  :match_field(Instr, /instr, Op), Op = "move",
  pp_var_region(P, Var, Region).

# store:
#
# For a store instruction, add region alias.
#
region_alias_base(Pmid, Var, Region, OtherRegion) :-
  pp_instr(P, Instr),
  edge(P, Pmid),
  :match_field(Instr, /var, Var),
  :match_field(Instr, /instr, Op), Op = "store",
  :match_field(Instr, /rhs, OtherVar),
  pp_var_region(P, Var, Region),
  pp_var_region(P, OtherVar, OtherRegion).

# store: (ctd).
#
# For a store instruction, propagate all (!) mappings.
#
pp_var_region(Pmid, Var, Region) :-
  pp_instr(P, Instr),
  edge(P, Pmid),
  :match_field(Instr, /instr, Op), Op = "store",
  pp_var_region(P, Var, Region).

# load:
#
# For a load instruction, take the projection region.
#
region_alias_base(Pmid, Var, Region, RhsRegionProjection) :-
  pp_instr(P, Instr),
  edge(P, Pmid),
  :match_field(Instr, /var, Var),
  :match_field(Instr, /instr, Op), Op = "load",
  :match_field(Instr, /rhs, Rhs),
  :match_field(Instr, /member, Member),
  pp_var_region(P, Var, Region),
  pp_var_region(P, Rhs, RhsRegion),
  variable_region_projection(Rhs, RhsRegion, Member, RhsRegionProjection).

# load:
#
# For a load instruction, copy all (!) mappings - we added the alias above.
#
pp_var_region(Pmid, Var, Region) :-
  pp_instr(P, Instr),
  edge(P, Pmid),
  :match_field(Instr, /var, Var),
  pp_var_region(P, Var, Region),
  :match_field(Instr, /instr, Op), Op = "load".

# deref:
#
# For a deref instruction, propagate.
#
pp_var_region(Pmid, Var, Region) :-
  pp_instr(P, Instr),
  edge(P, Pmid),
  :match_field(Instr, /instr, Op), Op = "deref",
  pp_var_region(P, Var, Region).

#
# Copy over region information from previous mid to point.
#
pp_var_region(P, Var, Region) :-
  pp_var_region(PrevMid, Var, Region),
  edge(PrevMid, P).

#
# Copy over invalid region info from previous mid to point.
# Cases without "move" instruction.
#
invalid_region(P, Var, Region) :-
  invalid_region(PrevMid, Var, Region),
  edge(PrevMid, P),
  pp_instr(P, Instr),
  :match_field(Instr, /instr, Op), Op != "move".

#
# Copy over invalid region info from previous mid to point.
# For "move": copy over the region from the rhs of the move instruction.
#
invalid_region(P, Var, Region) :-
  invalid_region(PrevMid, Var, Region),
  edge(PrevMid, P),
  pp_instr(P, Instr),
  :match_field(Instr, /instr, Op), Op = "move",
  :match_field(Instr, /rhs, RhsVar), Var = RhsVar.

invalid_region(PMid, Var, Region) :-
  edge(P, PMid),
  invalid_region(P, Var, Region),
  pp_instr(P, _).

#
# When a region is invalid, then also its projections.
#
invalid_region(P, FakeVar, ProjectionRegion) :-
  invalid_region(P, Var, Region),
  pp_var_region(P, FakeVar, ProjectionRegion),
  variable_region_projection(Var, Region, Member, ProjectionRegion).

# Error condition: deref of something with invalid region.

error_condition(P, "invalid region accessed") :-
  pp_instr(P, Instr),
  :match_field(Instr, /var, Var),
  :match_field(Instr, /instr, Op), Op = "deref",
  :match_field(Instr, /rhs, RhsVar),
  pp_var_region(P, RhsVar, RhsRegion),
  region_alias(P, _, RhsRegion, InvalidRegion),
  invalid_region(P, _, InvalidRegion).


error_condition(P, "invalid move") :-
  pp_instr(P, Instr),
  :match_field(Instr, /var, Var),
  :match_field(Instr, /instr, Op), Op = "move",
  :match_field(Instr, /rhs, RhsVar),
  pp_var_region(P, RhsVar, RhsRegion),
  region_alias(P, _, RhsRegion, InvalidRegion),
  invalid_region(P, _, InvalidRegion).

# Convenient short-hands to refer to region at a program point.
variable_region("b1", "^b1").
variable_region("b2", "^b2").
variable_region("tmp1", "^tmp1").
variable_region("tmp2", "^tmp2").

#
# Propagate Region aliases, unless "store" or "load"
#
region_alias_base(Pmid, Var, Region, OtherRegion) :-
  edge(P, Pmid),
  pp_instr(P, Instr),
  :match_field(Instr, /instr, Op), Op != "load", Op != "store",
  region_alias_base(P, Var, Region, OtherRegion).

region_alias_base(P, Var, Region, OtherRegion) :-
  edge(PrevMid, P),
  region_alias_base(PrevMid, Var, Region, OtherRegion).

# Embed region_alias_base into region_alias.
#
region_alias(P, Var, Region, OtherRegion) :-
  region_alias_base(P, Var, Region, OtherRegion).

# Make region_alias reflexive.
#
region_alias(P, Var, Region, Region) :-
  pp_var_region(P, Var, Region).

# Make region_alias symmetric.
#
region_alias(P, Var, Region, OtherRegion) :-
  region_alias(P, Var, OtherRegion, Region).

# Make region_alias transitive.
#
region_alias(P, Var, Region, OtherRegion) :-
  region_alias(P, Var, Region, SomeRegion),
  region_alias(P, Var, SomeRegion, OtherRegion).

# Add shorthands (necessary?)
#
region_alias(P, Var, Region, RegionShorthand) :-
  pp_var_region(P, Var, Region),
  variable_region(Var, RegionShorthand).

# When you load this file into the interpreter, it correctly detects
# that an invalid region has been dereferenced.
#
# mg >?error_condition
# error_condition(/p5,"invalid region accessed")
# error_condition(/p6,"invalid move")
# Found 2 entries for error_condition(X0,X1).
