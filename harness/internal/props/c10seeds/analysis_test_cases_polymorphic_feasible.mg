Decl o(Owner) bound[/any].

foo(X) :-
  o(O),
  #
  # {} | {} | {O: /any} |- O : /any
  #
  :match_pair(O, A, X),
  #
  # {?X1, ?X2} | {} | {O: Pair(?X1,?X2), A: X1, X: X2}
  #
  :string:contains(X, "foo")
  #
  # {?X1, ?X2} | {?X2 <: /string} | {... X : /string}
  #
.
