# A tagged union with two variants: move and quit.
Decl event(E)
  bound[
    .TaggedUnion</kind,
      /move : .Struct</x : /number, /y : /number>,
      /quit : .Struct<>
    >
  ].

# A move event.
event({/kind: /move, /x: 10, /y: 20}).

# A quit event.
event({/kind: /quit}).

# Extracting the tag field from a tagged union.
Decl event_kind(E, K)
  bound[
    .TaggedUnion</kind,
      /move : .Struct</x : /number, /y : /number>,
      /quit : .Struct<>
    >,
    /name
  ].
event_kind(E, K) :- event(E), :match_field(E, /kind, K).
