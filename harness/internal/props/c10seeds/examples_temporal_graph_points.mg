# Temporal Graph Reachability - Point in Time
#
# Demonstrates graph connectivity at distinct points in time.
# The graph structure changes:
# At T1 (2024-01-01): a -> b -> c
# At T2 (2024-01-02): a -> c -> d

Decl link(X, Y) temporal bound [/name, /name].
Decl reachable(X, Y) temporal bound [/name, /name].

# T1: 2024-01-01
link(/a, /b)@[2024-01-01].
link(/b, /c)@[2024-01-01].

# T2: 2024-01-02
link(/a, /c)@[2024-01-02].
link(/c, /d)@[2024-01-02].

# Recursive reachability rule propagates the timestamp
reachable(X, Y)@[T] :- link(X, Y)@[T].
reachable(X, Z)@[T] :- reachable(X, Y)@[T], link(Y, Z)@[T].

# Expected Output:
# reachable(/a, /b) @[2024-01-01T00:00:00Z]
# reachable(/b, /c) @[2024-01-01T00:00:00Z]
# reachable(/a, /c) @[2024-01-01T00:00:00Z]  <-- derived at T1
#
# reachable(/a, /c) @[2024-01-02T00:00:00Z]
# reachable(/c, /d) @[2024-01-02T00:00:00Z]
# reachable(/a, /d) @[2024-01-02T00:00:00Z]  <-- derived at T2
