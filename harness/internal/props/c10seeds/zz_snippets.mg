Decl p(X) descr [doc("a predicate")] bound [/number].
Decl s(X, Y) bound [fn:Pair(/name, /string), .List</number>] bound [/any, /any].
Decl tu(X) bound [.TaggedUnion</kind, /a : .Struct</x : /number>, /b : .Struct<opt /y : /string>>].
p(1). p(-2). p(9223372036854775807).
s(fn:pair(/a, "x"), [1, 2, 3]).
q(X, Y) :- p(X), Y = fn:plus(X, 1), X < 10, X != 3, !p(Y).
r(L) :- q(X, _) |> do fn:group_by(), let L = fn:collect(X).
m(M) :- p(X), M = [/k : X, /j : 2], :match_entry(M, /k, V).
st(S) :- p(X), S = {/a : X, /b : "s\n\t\"\\\x41\u{1F600}"}, :match_field(S, /a, Z).
b(B) :- B = b"\x00\xff'".
t(X)@[2024-01-15T10:30:00.5Z, now] :- p(X).
u(X) :- <-[0d, 7d] t(X), [+[1h, 500ms] t(X), t(X)@[S, E], :time:le(S, E).
f(1.5). f(-0.25e-3). f(.5).
n(/a/b.c-d_e~f%41).
l(`long
string`).
w(X) :- p(X) |> let Y = fn:mult(X, 2), let Z = fn:string:concat("a", Y).
Package pkg! Use other!
