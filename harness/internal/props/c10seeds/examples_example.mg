# Here are a few examples. '#' is a line-comment.

# A rule (without body) for a 0-argument predicate.
# These are not very useful, except for tests.
foo().

# A rule for a 1-argument predicate. Note that it is possible to have numbers
# or strings, by default there are no constraints on predicate arguments.
bar(/some/name/constant).
bar(606).
bar("a").

# You can use single quote for strings
bar('aaa').
bar('they asked "why?"').

# Multi-line
bar(`
Soon may the Wellerman come
To bring us sugar and tea and rum
`).

# We can use unary predicates to define a set of values, like an enumeration.
# These user-defined constants have no special meaning in Mangle.
my_boolean(/true).
my_boolean(/false).

# Datalog's logical data model is close to the relational model.
# Here is a predicate definition that corresponds to a table.
fruit(/apple, /sweet, /red).
fruit(/apple, /sweet, /yellow).
fruit(/apple, /sour, /green).
fruit(/banana, /sweet, /yellow).

# Try querying this by loading this file into the interactive interpreter
# and typing this at the prompt: 
# ?fruit
# ?fruit(_, /sweet, _)

# Here is a way to "unit test" rules. At the prompt, we query ?test_bar().
# and check that it is there.
test_bar() :- bar('a'), !bar('c').

# If you want to check for absence, you can use negation.
# We want to ensure that there is no false() atom...
false() :- bar('b').

# ... we define a rule that checks that there is no false() atom.
test_foobar() :- !false().

# First queries
example_number(1).
example_number(5).
example_number(19).

# This is no longer plain Datalog.
example_foobar(X) :- example_number(X), fn:minus(20, X) < 5.
