# This file contains the data and queries from the aggregation.md documentation.

# --- Data from tables ---

# volunteer(ID, Name, Skill)
volunteer(/v/3, "Alyssa P. Hacker", /software_development).
volunteer(/v/3, "Alyssa P. Hacker", /organizer).
volunteer(/v/4, "Ivan Hassenovich", /software_development).
volunteer(/v/4, "Ivan Hassenovich", /organizer).
volunteer(/v/5, "Claudio Ferrari", /organizer).

# project(ProjectID, Name)
project(/p/10, "Ultimate Kubernetes Control Plane UI").
project(/p/11, "YAML Engineer Online Courseware").
project(/p/12, "Personal Dopamine Fasting Tracker").
project(/p/13, "LLM Fact Checker").

# project_assignment(ProjectID, VolunteerID, Role, Hours)
project_assignment(/p/10, /v/3, /organizer, 2).
project_assignment(/p/10, /v/3, /software_development, 2).
project_assignment(/p/10, /v/4, /software_development, 2).
project_assignment(/p/11, /v/4, /software_development, 20).
project_assignment(/p/12, /v/5, /organizer, 20).


# --- Queries (rules) from the documentation ---

# This rule calculates the number of developers and total hours for projects
# that have at least one developer.
project_dev_energy(ProjectID, NumDevelopers, TotalHours) :-
  project_assignment(ProjectID, _, /software_development, Hours)
  |> do fn:group_by(ProjectID),
     let NumDevelopers = fn:count(),
     let TotalHours = fn:sum(Hours).

# Helper rule to identify projects with developers.
project_with_developers(ProjectID) :-
  project_assignment(ProjectID, _, /software_development, _).

# Helper rule to identify projects without developers.
project_without_developers(ProjectID) :-
  project(ProjectID, _),
  !project_with_developers(ProjectID).

# This rule handles projects with zero developers.
project_dev_energy(ProjectID, 0, 0) :-
  project_without_developers(ProjectID).
