# Live-variable analysis is a classic dataflow analysis.
#
# We only represent whether the statement at a program point definitely
# assigns (def) or uses (use) a variable.
#
# The Dragon Book specifies the analysis using these dataflow equations,
# where In[B] (Out[B]) are the live variables at incoming (outgoing) side
# of basic block B and use_B (def_B) are the variables used (definitely
# assigned) in B.
#
#   In[exit] = \emptyset
#
#   In[B]  = use_B \union Out[B] - def_B
#   Out[B] = \Union_{S is successor of B} In[S]
#
# Information flows "backward": a variable Var is live at exit of a
# point Point if it is used at P or if it is live later and the statement
# at P does not definitely assign to V.
#
# When expressed as datalog rules, these equations are rearranged
# to talk about relations instead of input/output sets.

Decl edge(Source, Target).
Decl def(Point, Var).
Decl use(Point, Var).

live(Point, Var) :-
  use(Point, Var).

live(Point, Var) :-
  edge(Point, Succ), live(Succ, Var), !def(Point, Var).

# What follows is a representation of a Rust program with a borrow-check
# error.
#
# 1: let mut x = 1;
# 2: let y = &x;
# 3: *x = 1;
# 4: print(y);
# 5: // exit

edge(1, 2).
edge(2, 3).
edge(3, 4).
edge(4, 5).

# `let mut x = 1;`
def(1, "x").

# `let y = &x;`
def(2, "y").
use(2, "x").

# `*x = 2;`
def(3, "x").

# `print(y);`
use(4, "y").


# When you load this into the interpreter, you can query at which program
# points which variables are live:
#
# mg >?live
# live(2,"x")
# live(3,"y")
# live(4,"y")
