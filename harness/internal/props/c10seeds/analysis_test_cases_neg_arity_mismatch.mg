p(1,2,3).

# This should fail because we call p with 2 arguments but it has arity 3.
q(X,Y) :- p(X,Y).