Decl shortest_path(Source, Target, Path)
  descr [
    fundep([Source, Target], [Path]),
    merge([Path], "shorter")
  ].

Decl shorter(P1, P2, ShorterPath)
  descr[
    mode('+', '+', '-'),
    deferred(),
  ].

edge(/a, /b).
edge(/b, /c).
edge(/c, /d).
edge(/a, /d).

# The all_paths relation contains "all paths."

all_paths(X, Y, [X, Y]) :-
  edge(X, Y).
all_paths(X, Z, NewPath) :-
	all_paths(X, Y, Path), edge(Y, Z)
  |> let NewPath = fn:list:append(Path, Z).

# The shortest path relation contains only the shortest paths.
# The definition is exactly the same as all_paths, but the declaration
# defines a merge predicate that will remove the longer paths.

shortest_path(X, Y, [X, Y]) :-
  edge(X, Y).
shortest_path(X, Z, NewPath) :-
	shortest_path(X, Y, Path), edge(Y, Z)
  |> let NewPath = fn:list:append(Path, Z).

shorter(P1, P2, ShorterPath) :-
  fn:list:len(P1) < fn:list:len(P2),
  ShorterPath = P1.

shorter(P1, P2, ShorterPath) :-
  fn:list:len(P2) <= fn:list:len(P1),
  ShorterPath = P2.

# Interpreter session:

# mg >?all_paths(/a,/d,_)
# all_paths(/a,/d,[/d, /a])
# all_paths(/a,/d,[/d, /c, /b, /a])
# Found 2 entries for all_paths(/a,/d,_).

# mg >?shortest_path(/a, /d, _)
# shortest_path(/a,/d,[/d, /a])
# Found 1 entries for shortest_path(/a,/d,_).
