# The ancestor predicate is an example of a relation that can be defined
# using a recursive rule.

# Rules with a head but without a body simply define facts.

parent(/Oedipus, /Polynices).
parent(/Polynices, /Thersander).
parent(/Polynices, /Timeas).
parent(/Polynices, /Adrastus).

# Rules with a body define how to produce new facts from existing ones.
# We use `⟸` here but you can also use `:-` to separate head and body.

# - Every parent of Y is an ancestor of Y.
ancestor(X, Y) ⟸ parent(X, Y).

# - Every parent of an ancestor of Z is also an ancestor of Z.
ancestor(X, Z) ⟸ parent(X, Y), ancestor(Y, Z).

# Try loading this file and querying Adrastus' ancestors.
# mg > ?ancestor(_, /Adrastus)
# ancestor(/Oedipus,/Adrastus)
# ancestor(/Polynices,/Adrastus)
# Found 2 entries for ancestor(_,/Adrastus).

# There are other ways to define this relation. Try changing the second clause
# to "Every ancestor of an  # ancestor of Z is also an ancestor of Z" and
# reloading the file.
