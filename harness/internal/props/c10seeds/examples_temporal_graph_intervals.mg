# Temporal Graph Reachability - Intervals
#
# Demonstrates reachability when edges are valid for time intervals.
# Reachability is valid only during the intersection of edge intervals.

Decl link(X, Y) temporal bound [/name, /name].
Decl reachable(X, Y) temporal bound [/name, /name].

# a -> b valid for Jan 1-10
link(/a, /b)@[2024-01-01, 2024-01-10].

# b -> c valid for Jan 5-15
link(/b, /c)@[2024-01-05, 2024-01-15].

# c -> d valid for Jan 12-20
link(/c, /d)@[2024-01-12, 2024-01-20].

# Reachability propagates the intersection of intervals
reachable(X, Y)@[S, E] :- link(X, Y)@[S, E].

# Recursive step: intersection of intervals [S, E] = [S1, E1] intersect [S2, E2]
# Valid if S <= E.

# Case 1: S1 >= S2, E1 <= E2 (S=S1, E=E1)
reachable(X, Z)@[S1, E1] :-
    reachable(X, Y)@[S1, E1], link(Y, Z)@[S2, E2],
    :time:ge(S1, S2), :time:le(E1, E2), :time:le(S1, E1).

# Case 2: S1 >= S2, E2 < E1 (S=S1, E=E2)
reachable(X, Z)@[S1, E2] :-
    reachable(X, Y)@[S1, E1], link(Y, Z)@[S2, E2],
    :time:ge(S1, S2), :time:lt(E2, E1), :time:le(S1, E2).

# Case 3: S2 > S1, E1 <= E2 (S=S2, E=E1)
reachable(X, Z)@[S2, E1] :-
    reachable(X, Y)@[S1, E1], link(Y, Z)@[S2, E2],
    :time:gt(S2, S1), :time:le(E1, E2), :time:le(S2, E1).

# Case 4: S2 > S1, E2 < E1 (S=S2, E=E2)
reachable(X, Z)@[S2, E2] :-
    reachable(X, Y)@[S1, E1], link(Y, Z)@[S2, E2],
    :time:gt(S2, S1), :time:lt(E2, E1), :time:le(S2, E2).

# Expected Output:
# link(/a, /b) @[2024-01-01T00:00:00Z, 2024-01-10T00:00:00Z]
# link(/b, /c) @[2024-01-05T00:00:00Z, 2024-01-15T00:00:00Z]
# link(/c, /d) @[2024-01-12T00:00:00Z, 2024-01-20T00:00:00Z]
#
# reachable(/a, /b) @[2024-01-01T00:00:00Z, 2024-01-10T00:00:00Z]
# reachable(/b, /c) @[2024-01-05T00:00:00Z, 2024-01-15T00:00:00Z]
# reachable(/c, /d) @[2024-01-12T00:00:00Z, 2024-01-20T00:00:00Z]
#
# reachable(/a, /c) @[2024-01-05T00:00:00Z, 2024-01-10T00:00:00Z]
# (Intersection of [Jan 1, Jan 10] and [Jan 5, Jan 15])
#
# reachable(/b, /d) @[2024-01-12T00:00:00Z, 2024-01-15T00:00:00Z]
# (Intersection of [Jan 5, Jan 15] and [Jan 12, Jan 20])
#
# Note: reachable(/a, /d) is NOT derived because [Jan 5, Jan 10] does not overlap with [Jan 12, Jan 20].
