package props

import (
	"encoding/json"
	"fmt"
	"math/rand"
	"sort"
	"strings"
	"time"

	"codeberg.org/TauCeti/mangle-go/analysis"
	"codeberg.org/TauCeti/mangle-go/ast"
	"codeberg.org/TauCeti/mangle-go/engine"
	"codeberg.org/TauCeti/mangle-go/factstore"
	"codeberg.org/TauCeti/mangle-go/parse"

	"verif/internal/canon"
	"verif/internal/core"
	"verif/internal/gen"
)

// C05 — results do not depend on presentation, ordering or store choice.

type c05Case struct {
	Prog  *gen.ProgramV  `json:"prog,omitempty"`
	TProg *gen.TProgramV `json:"tprog,omitempty"`
	Seed  int64          `json:"seed"`
	Text  string         `json:"text,omitempty"`
}

type c05 struct{}

func init() { core.Register(c05{}) }

func (c05) ID() string { return "C05" }
func (c05) Cases(tier string) int {
	if tier == "thorough" {
		return 300000
	}
	return 12000
}
func (c05) Describe() core.Info {
	return core.Info{
		Level: "exploration",
		Rule: "two workloads (plus, every 8th plain case, a small program over unary predicates that mention each other positively and through negation in any direction - about half are not stratifiable; when the baseline presentation is rejected by analysis every other presentation must be rejected too: sig accepted-only-in-variant). (a) typed random programs (recursion, negation, comparisons, functions, let- and do-transforms with order-insensitive reducers: count/sum/min/max/avg over small integers/collect_distinct read as a set); (b) temporal programs: chains and diamonds of rules with interval-annotated heads and bodies and the four operators over base and derived temporal predicates, evaluated with a temporal store at a fixed evaluation time. Each program is evaluated once as baseline and then under: shuffled clauses, shuffled base facts (preloaded), consistent variable renaming (also to the library's own fresh names X0, X1, ...), equalities and inequalities written the other way round, negated atoms moved to the front of their bodies (the library delays them), the plain positive atoms of every body moved to the front in a shuffled order, predicate renaming (mapped back), wrapping in 'Package pk!' via the parser (names mapped back), every store implementation (incl. a merged store over a lazily read simple-column file, and a re-evaluation over a saved random half of a first evaluation's facts), WithDeterministicOrder, and 5 plain repetitions (fresh Go maps, fresh iteration orders). Oracle: all canonical fact sets (temporal facts with their intervals) are equal. Non-trivial: >= 2 strata or a recursion candidate and >= 3 derived facts; distinct by program.",
		Assumptions: []string{"internal *__tmp predicates are excluded from the comparison", "the printed program text is parsed back for the package variant (print/parse round trip is C09's property)"},
		PerCaseTimeout: 120e9,
	}
}

func (c05) Gen(r *rand.Rand, tier string, i int) any {
	c := c05Case{Seed: r.Int63()}
	if i%3 == 2 {
		tp := gen.RandTemporalProgram(r)
		c.TProg = &tp
		c.Text = tprogText(tp, "")
		return c
	}
	if i%10 == 3 {
		// the closure family: non-linear recursion whose later atoms need facts of later rounds
		p := gen.RandClosureProgram(r)
		c.Prog = &p
		c.Text = progText(p)
		return c
	}
	if i%8 == 5 {
		// mutual dependencies through negation in any direction: about half are not stratifiable, and
		// then every presentation has to be rejected
		p := gen.RandNegKnotProgram(r)
		c.Prog = &p
		c.Text = progText(p)
		return c
	}
	o := gen.ProgOpts{Negation: true, Compare: true, Functions: r.Intn(2) == 0, Lists: r.Intn(3) == 0, Let: true, Do: r.Intn(2) == 0, DoPercent: 50, Mix: r.Intn(3) == 0, DoWildcards: true, DoFilters: true, MoreNegation: r.Intn(3) == 0,
		Wildcards: r.Intn(2) == 0, Shuffle: 0, FnInAtoms: true, Reducers: []string{"fn:count", "fn:sum", "fn:min", "fn:max", "fn:avg", "fn:collect_distinct"}}
	p := gen.RandProgram(r, o)
	if i%4 == 1 {
		gen.AddIDBFacts(r, &p) // rule-defined predicates with unit clauses of their own, anywhere in the clause list
	}
	c.Prog = &p
	c.Text = progText(p)
	return c
}

func (c05) Decode(raw json.RawMessage) (any, error) {
	var c c05Case
	err := json.Unmarshal(raw, &c)
	return c, err
}

// ---- temporal program helpers

func tprogClauses(p gen.TProgramV) []ast.Clause {
	var cs []ast.Clause
	for _, f := range p.TFacts {
		iv := f.Iv.Build()
		cs = append(cs, ast.Clause{Head: f.Atom.Atom(), HeadTime: &iv})
	}
	for _, f := range p.Facts {
		cs = append(cs, ast.Clause{Head: f.Atom()})
	}
	for _, r := range p.Rules {
		cs = append(cs, r.Build())
	}
	return cs
}

func tprogText(p gen.TProgramV, pkg string) string {
	var sb strings.Builder
	if pkg != "" {
		sb.WriteString("Package " + pkg + "!\n")
	}
	for _, c := range tprogClauses(p) {
		sb.WriteString(c.String())
		sb.WriteByte('\n')
	}
	return sb.String()
}

// resultSet is a canonical set of strings: ordinary facts and temporal facts with intervals.
type resultSet map[string]string

func collectResults(store factstore.ReadOnlyFactStore, ts *factstore.TemporalStore, rename func(string) string, cols map[string][]int) resultSet {
	out := resultSet{}
	set, _, _ := storeSet(store)
	set = normSetCols(set, cols) // cols are keyed by the names as stored
	if rename != nil {
		set2 := canon.Set{}
		for _, a := range set {
			a.Predicate.Symbol = rename(a.Predicate.Symbol)
			set2.Add(a)
		}
		set = set2
	}
	for k, a := range set {
		out[k] = a.String()
	}
	if ts != nil {
		ts.GetAllFacts(ast.Atom{}, func(tf factstore.TemporalFact) error {
			a := tf.Atom
			if a.Predicate.IsInternalPredicate() {
				return nil
			}
			if rename != nil {
				a.Predicate.Symbol = rename(a.Predicate.Symbol)
			}
			k := canon.Atom(a) + c13IvKey(tf.Interval)
			out[k] = a.String() + c13IvKey(tf.Interval)
			return nil
		})
	}
	return out
}

func diffResults(a, b resultSet) (onlyA, onlyB []string) {
	for k, v := range a {
		if _, ok := b[k]; !ok {
			onlyA = append(onlyA, v)
		}
	}
	for k, v := range b {
		if _, ok := a[k]; !ok {
			onlyB = append(onlyB, v)
		}
	}
	sort.Strings(onlyA)
	sort.Strings(onlyB)
	if len(onlyA) > 6 {
		onlyA = onlyA[:6]
	}
	if len(onlyB) > 6 {
		onlyB = onlyB[:6]
	}
	return
}

type c05Variant struct {
	name string
	run  func() (resultSet, error)
}

var evalTime = time.Unix(0, gen.EvalTimeNanos).UTC()

func renameVars(c gen.ClauseV, prefix string) gen.ClauseV {
	return renameVarsFn(c, func(n string) string { return prefix + n })
}

// renameLikeFresh renames the variables of a clause to X0, X1, ... (in a shuffled order), the names
// the library itself generates for wildcards and rewritten clauses.
func renameLikeFresh(c gen.ClauseV, seed int64) gen.ClauseV {
	names := map[string]string{}
	var order []string
	renameVarsFn(c, func(n string) string {
		if _, ok := names[n]; !ok {
			names[n] = ""
			order = append(order, n)
		}
		return n
	})
	perm := rand.New(rand.NewSource(seed)).Perm(len(order) + 2)
	for i, n := range order {
		names[n] = fmt.Sprintf("X%d", perm[i])
	}
	return renameVarsFn(c, func(n string) string { return names[n] })
}

func renameVarsFn(c gen.ClauseV, f func(string) string) gen.ClauseV {
	var rt func(t gen.TermV) gen.TermV
	rt = func(t gen.TermV) gen.TermV {
		if t.K == "var" && t.Name != "_" {
			return gen.VarT(f(t.Name))
		}
		if len(t.Args) > 0 {
			n := t
			n.Args = make([]gen.TermV, len(t.Args))
			for i, a := range t.Args {
				n.Args[i] = rt(a)
			}
			return n
		}
		return t
	}
	rl := func(l gen.LitV) gen.LitV {
		n := l
		n.Args = make([]gen.TermV, len(l.Args))
		for i, a := range l.Args {
			n.Args[i] = rt(a)
		}
		if l.L != nil {
			a, b := rt(*l.L), rt(*l.R)
			n.L, n.R = &a, &b
		}
		return n
	}
	out := c
	out.Head = rl(c.Head)
	out.Body = make([]gen.LitV, len(c.Body))
	for i, l := range c.Body {
		out.Body[i] = rl(l)
	}
	out.Transforms = nil
	for _, stmts := range c.Transforms {
		var ns []gen.StmtV
		for _, s := range stmts {
			n := gen.StmtV{Fn: rt(s.Fn)}
			if s.Var != "" {
				n.Var = f(s.Var)
			}
			ns = append(ns, n)
		}
		out.Transforms = append(out.Transforms, ns)
	}
	return out
}

func renamePreds(p gen.ProgramV, f func(string) string) gen.ProgramV {
	out := p
	out.Facts = make([]gen.AtomV, len(p.Facts))
	for i, a := range p.Facts {
		out.Facts[i] = gen.AtomV{P: f(a.P), Args: a.Args}
	}
	out.Preds = make([]gen.PredSig, len(p.Preds))
	for i, ps := range p.Preds {
		ps.Name = f(ps.Name)
		out.Preds[i] = ps
	}
	out.Rules = make([]gen.ClauseV, len(p.Rules))
	for i, r := range p.Rules {
		n := r
		n.Head.Pred = f(r.Head.Pred)
		n.Body = make([]gen.LitV, len(r.Body))
		for j, l := range r.Body {
			if !strings.HasPrefix(l.Pred, ":") && l.Pred != "" {
				l.Pred = f(l.Pred)
			}
			n.Body[j] = l
		}
		out.Rules[i] = n
	}
	return out
}

func evalPlain(p gen.ProgramV, kind string, factsAsClauses bool, cols map[string][]int, rename func(string) string, opts ...engine.EvalOption) (resultSet, error) {
	pi, err := analyze(p, factsAsClauses)
	if err != nil {
		return nil, fmt.Errorf("analysis: %w", err)
	}
	var pre []ast.Atom
	if !factsAsClauses {
		pre = baseAtoms(p)
	}
	store := newEngineStore(kind, pre)
	if err := engine.EvalProgram(pi, store, opts...); err != nil {
		return nil, fmt.Errorf("evaluation: %w", err)
	}
	return collectResults(store, nil, rename, cols), nil
}

func evalText(text string, kind string, temporal bool, cols map[string][]int, rename func(string) string, opts ...engine.EvalOption) (resultSet, error) {
	unit, err := parse.Unit(strings.NewReader(text))
	if err != nil {
		return nil, fmt.Errorf("parse: %w", err)
	}
	pi, err := analysis.AnalyzeOneUnit(unit, nil)
	if err != nil {
		return nil, fmt.Errorf("analysis: %w", err)
	}
	store := newEngineStore(kind, nil)
	var ts *factstore.TemporalStore
	if temporal {
		ts = factstore.NewTemporalStore()
		opts = append(opts, engine.WithTemporalStore(ts), engine.WithEvaluationTime(evalTime))
	}
	if err := engine.EvalProgram(pi, store, opts...); err != nil {
		return nil, fmt.Errorf("evaluation: %w", err)
	}
	return collectResults(store, ts, rename, cols), nil
}

func evalTemporal(clauses []ast.Clause, kind string, opts ...engine.EvalOption) (resultSet, error) {
	pi, err := analysis.AnalyzeOneUnit(parse.SourceUnit{Clauses: clauses}, nil)
	if err != nil {
		return nil, fmt.Errorf("analysis: %w", err)
	}
	store := newEngineStore(kind, nil)
	ts := factstore.NewTemporalStore()
	opts = append(opts, engine.WithTemporalStore(ts), engine.WithEvaluationTime(evalTime))
	if err := engine.EvalProgram(pi, store, opts...); err != nil {
		return nil, fmt.Errorf("evaluation: %w", err)
	}
	return collectResults(store, ts, nil, nil), nil
}

func stripPkg(s string) string { return strings.TrimPrefix(s, "pk.") }

func c05Variants(c c05Case) (baseline func() (resultSet, error), vs []c05Variant) {
	r := rand.New(rand.NewSource(c.Seed))
	if c.Prog != nil {
		p := *c.Prog
		cols := setColPreds(p)
		baseline = func() (resultSet, error) { return evalPlain(p, "multiarray", true, cols, nil) }
		// shuffled clauses
		sh := p
		sh.Rules = append([]gen.ClauseV{}, p.Rules...)
		sh.Facts = append([]gen.AtomV{}, p.Facts...)
		r.Shuffle(len(sh.Rules), func(i, j int) { sh.Rules[i], sh.Rules[j] = sh.Rules[j], sh.Rules[i] })
		r.Shuffle(len(sh.Facts), func(i, j int) { sh.Facts[i], sh.Facts[j] = sh.Facts[j], sh.Facts[i] })
		vs = append(vs, c05Variant{"shuffled-clauses", func() (resultSet, error) { return evalPlain(sh, "multiarray", true, cols, nil) }})
		vs = append(vs, c05Variant{"shuffled-preloaded-facts", func() (resultSet, error) { return evalPlain(sh, "multiarray", false, cols, nil) }})
		// renamed variables
		rv := p
		rv.Rules = make([]gen.ClauseV, len(p.Rules))
		for i, rule := range p.Rules {
			rv.Rules[i] = renameVars(rule, fmt.Sprintf("Q%d", i))
		}
		vs = append(vs, c05Variant{"renamed-variables", func() (resultSet, error) { return evalPlain(rv, "multiarray", true, cols, nil) }})
		// ... to the names the library generates itself (X0, X1, ...)
		rx := p
		rx.Rules = make([]gen.ClauseV, len(p.Rules))
		for i, rule := range p.Rules {
			rx.Rules[i] = renameLikeFresh(rule, int64(i)+r.Int63n(1000))
		}
		vs = append(vs, c05Variant{"renamed-variables-like-fresh", func() (resultSet, error) { return evalPlain(rx, "multiarray", true, cols, nil) }})
		// equalities and inequalities written the other way round (A = B as B = A): the documented meaning of
		// both is symmetric and analysis accepts either orientation as a binding
		sw := p
		sw.Rules = make([]gen.ClauseV, len(p.Rules))
		for i, rule := range p.Rules {
			nr := rule
			nr.Body = make([]gen.LitV, len(rule.Body))
			for k, l := range rule.Body {
				if (l.K == "eq" || l.K == "ineq") && l.L != nil && l.R != nil {
					l.L, l.R = l.R, l.L
				}
				nr.Body[k] = l
			}
			sw.Rules[i] = nr
		}
		vs = append(vs, c05Variant{"swapped-equalities", func() (resultSet, error) { return evalPlain(sw, "multiarray", true, cols, nil) }})
		// negated atoms written first: the library moves a negated atom behind the premises that bind its
		// variables, so its place in the body carries no meaning
		nf := p
		nf.Rules = make([]gen.ClauseV, len(p.Rules))
		for i, rule := range p.Rules {
			nr := rule
			var negs, rest []gen.LitV
			for _, l := range rule.Body {
				if l.K == "neg" {
					negs = append(negs, l)
				} else {
					rest = append(rest, l)
				}
			}
			r.Shuffle(len(negs), func(a, b int) { negs[a], negs[b] = negs[b], negs[a] })
			nr.Body = append(negs, rest...)
			nf.Rules[i] = nr
		}
		vs = append(vs, c05Variant{"negations-first", func() (resultSet, error) { return evalPlain(nf, "multiarray", true, cols, nil) }})
		// the plain positive atoms of every body moved to the front in a shuffled order (they bind their variables,
		// so everything else stays behind what it needs): the order of the atoms of a conjunction carries no meaning
		po := p
		po.Rules = make([]gen.ClauseV, len(p.Rules))
		for i, rule := range p.Rules {
			nr := rule
			var atoms, rest []gen.LitV
			for _, l := range rule.Body {
				plain := l.K == "atom" && !strings.HasPrefix(l.Pred, ":")
				for _, a := range l.Args {
					if a.K == "fn" {
						plain = false
					}
				}
				if plain {
					atoms = append(atoms, l)
				} else {
					rest = append(rest, l)
				}
			}
			r.Shuffle(len(atoms), func(a, b int) { atoms[a], atoms[b] = atoms[b], atoms[a] })
			nb := append(atoms, rest...)
			if len(gen.FnAtomsWithoutValue(nb)) == 0 {
				nr.Body = nb
			}
			po.Rules[i] = nr
		}
		vs = append(vs, c05Variant{"reordered-positive-atoms", func() (resultSet, error) { return evalPlain(po, "multiarray", true, cols, nil) }})
		// renamed predicates
		rp := renamePreds(p, func(s string) string { return "zz_" + s })
		colsR := setColPreds(rp)
		vs = append(vs, c05Variant{"renamed-predicates", func() (resultSet, error) {
			res, err := evalPlain(rp, "multiarray", true, colsR, func(s string) string { return strings.TrimPrefix(s, "zz_") })
			return res, err
		}})
		// package
		text := "Package pk!\n" + progText(p)
		colsP := map[string][]int{}
		for k, v := range cols {
			colsP["pk."+k] = v
		}
		vs = append(vs, c05Variant{"package", func() (resultSet, error) {
			// normalise set columns under the prefixed names, then strip the prefix
			return evalText(text, "multiarray", false, colsP, stripPkg)
		}})
		for _, kind := range engineStoreKinds {
			kind := kind
			vs = append(vs, c05Variant{"store-" + kind, func() (resultSet, error) { return evalPlain(p, kind, r.Intn(2) == 0, cols, nil) }})
		}
		vs = append(vs, c05Variant{"store-saved-partial-result", func() (resultSet, error) {
			// evaluate once, save a random half of the resulting facts in a simple-column file, and evaluate
			// again on a merged store whose read-only layer is the lazily read file
			pi, err := analyze(p, true)
			if err != nil {
				return nil, fmt.Errorf("analysis: %w", err)
			}
			first := newEngineStore("multiarray", nil)
			if err := engine.EvalProgram(pi, first); err != nil {
				return nil, fmt.Errorf("evaluation: %w", err)
			}
			var keep []ast.Atom
			rr := rand.New(rand.NewSource(c.Seed + 77))
			for _, a := range allFacts(first) {
				if rr.Intn(2) == 0 {
					keep = append(keep, a)
				}
			}
			store := newEngineStore("merged-file", keep)
			if err := engine.EvalProgram(pi, store); err != nil {
				return nil, fmt.Errorf("evaluation: %w", err)
			}
			return collectResults(store, nil, nil, cols), nil
		}})
		vs = append(vs, c05Variant{"deterministic-order", func() (resultSet, error) {
			return evalPlain(p, "multiarray", true, cols, nil, engine.WithDeterministicOrder())
		}})
		for k := 0; k < 5; k++ {
			vs = append(vs, c05Variant{fmt.Sprintf("repetition-%d", k), func() (resultSet, error) { return evalPlain(p, "multiarray", true, cols, nil) }})
		}
		return
	}
	tp := *c.TProg
	cl := tprogClauses(tp)
	baseline = func() (resultSet, error) { return evalTemporal(cl, "multiarray") }
	sh := append([]ast.Clause{}, cl...)
	r.Shuffle(len(sh), func(i, j int) { sh[i], sh[j] = sh[j], sh[i] })
	vs = append(vs, c05Variant{"shuffled-clauses", func() (resultSet, error) { return evalTemporal(sh, "multiarray") }})
	vs = append(vs, c05Variant{"store-simple", func() (resultSet, error) { return evalTemporal(cl, "simple") }})
	vs = append(vs, c05Variant{"deterministic-order", func() (resultSet, error) { return evalTemporal(cl, "multiarray", engine.WithDeterministicOrder()) }})
	text := tprogText(tp, "pk")
	vs = append(vs, c05Variant{"package", func() (resultSet, error) { return evalText(text, "multiarray", true, nil, stripPkg) }})
	plain := tprogText(tp, "")
	vs = append(vs, c05Variant{"parsed-text", func() (resultSet, error) { return evalText(plain, "multiarray", true, nil, nil) }})
	for k := 0; k < 5; k++ {
		vs = append(vs, c05Variant{fmt.Sprintf("repetition-%d", k), func() (resultSet, error) { return evalTemporal(cl, "multiarray") }})
	}
	return
}

func c05Exec(c c05Case, res *core.Result) (skip string, fail *evalFail) {
	baseline, vs := c05Variants(c)
	base, err := baseline()
	if err != nil {
		if strings.HasPrefix(err.Error(), "analysis") {
			// acceptance must not depend on the presentation either
			kind := "plain"
			if c.TProg != nil {
				kind = "temporal"
			}
			for _, v := range vs {
				// only presentations that submit the same clauses in the same form (facts as clauses):
				// preloaded facts, or a text with declarations, are legitimately analysed differently
				switch variantClass(v.name) {
				case "shuffled-clauses", "renamed-variables", "renamed-variables-like-fresh", "renamed-predicates", "repetition", "deterministic-order":
				default:
					continue
				}
				if _, verr := v.run(); verr == nil {
					return "", &evalFail{kind + ":accepted-only-in-variant:" + variantClass(v.name), fmt.Sprintf("the baseline presentation is rejected (%v) but presentation %q is accepted and evaluated", err, v.name)}
				}
				if res != nil {
					res.Ob("rejections_compared", 1)
				}
			}
			return "analysis-rejected", nil
		}
		return "baseline-evaluation-error", nil
	}
	if res != nil {
		res.Ob("baseline_facts", len(base))
	}
	kind := "plain"
	if c.TProg != nil {
		kind = "temporal"
	}
	for _, v := range vs {
		got, err := v.run()
		if err != nil {
			if c05OrderVariant(v.name) && strings.HasPrefix(err.Error(), "analysis") {
				// analysis may insist on a premise order or on the orientation of a binding equality (rejecting a
				// safe clause is not a defect); only the results of accepted presentations are compared
				if res != nil {
					res.Ob("rejected-by-analysis:"+variantClass(v.name), 1)
				}
				continue
			}
			return "", &evalFail{kind + ":variant-fails:" + variantClass(v.name), fmt.Sprintf("presentation %q fails (%v) although the baseline evaluates", v.name, err)}
		}
		if res != nil {
			res.Ob("presentations_compared", 1)
			res.Ob("presentation:"+variantClass(v.name), 1)
		}
		onlyBase, onlyVar := diffResults(base, got)
		if len(onlyBase) > 0 || len(onlyVar) > 0 {
			sig := kind + ":result-differs:" + variantClass(v.name)
			if strings.HasPrefix(v.name, "store-") {
				k := strings.TrimPrefix(strings.TrimPrefix(v.name, "store-"), "concurrent-")
				if hashKeyed(k) && c.Prog != nil {
					if pi, err := analyze(*c.Prog, true); err == nil && rawCollisions(pi, nil) {
						sig = "hash-collision:" + k
					}
				}
			}
			return "", &evalFail{sig, fmt.Sprintf("presentation %q changes the result: only in baseline %v, only in variant %v", v.name, onlyBase, onlyVar)}
		}
	}
	return "", nil
}

// c05OrderVariant: presentations that move premises or swap the sides of an (in)equality. The property does not
// list them; their results must agree with the baseline, but analysis is free to accept only some of them.
func c05OrderVariant(name string) bool {
	switch name {
	case "swapped-equalities", "negations-first", "reordered-positive-atoms":
		return true
	}
	return false
}

func variantClass(name string) string {
	if strings.HasPrefix(name, "repetition") {
		return "repetition"
	}
	return name
}

func (c05) Run(cs any) core.Result {
	c := cs.(c05Case)
	var res core.Result
	res.Key = core.HashKey(c.Text)
	skip, fail := c05Exec(c, &res)
	if skip != "" {
		res.Ob("skipped:"+skip, 1)
		return res
	}
	if c.Prog != nil {
		f := progFeatures(*c.Prog)
		res.NonTrivial = (f["recursion-candidate"] || f["negation"] || f["aggregation"]) && res.Obs["baseline_facts"]-len(c.Prog.Facts) >= 3
		res.Ob("plain_programs", 1)
	} else {
		res.NonTrivial = res.Obs["baseline_facts"]-len(c.TProg.TFacts)-len(c.TProg.Facts) >= 2
		res.Ob("temporal_programs", 1)
	}
	if fail == nil {
		return res
	}
	sig := fail.sig
	min := c
	if core.ShrinkAllowed(sig) {
		try := func(t c05Case) bool {
			s, f := c05Exec(t, nil)
			return s == "" && f != nil && f.sig == sig
		}
		if c.Prog != nil {
			pc := shrinkProg(progCase{Prog: *c.Prog}, func(t progCase) bool {
				x := c
				x.Prog = &t.Prog
				return try(x)
			})
			min.Prog = &pc.Prog
			min.Text = progText(pc.Prog)
		} else {
			tp := *c.TProg
			tp.Rules = core.ShrinkSlice(tp.Rules, func(rs []gen.ClauseV) bool {
				x := c
				y := tp
				y.Rules = rs
				x.TProg = &y
				return try(x)
			})
			tp.TFacts = core.ShrinkSlice(tp.TFacts, func(fs []gen.TFactV) bool {
				x := c
				y := tp
				y.TFacts = fs
				x.TProg = &y
				return try(x)
			})
			min.TProg = &tp
			min.Text = tprogText(tp, "")
		}
	}
	msg := fail.msg
	if _, f := c05Exec(min, nil); f != nil {
		msg = f.msg
	}
	raw, _ := json.Marshal(min)
	res.Violations = append(res.Violations, core.Violation{Sig: sig, Msg: msg + "\nminimal program:\n" + min.Text, Witness: raw})
	return res
}
