package props

import (
	"bytes"

	"codeberg.org/TauCeti/mangle-go/ast"
	"codeberg.org/TauCeti/mangle-go/factstore"
)

// Store kinds the engine can write to (base kinds).
var baseKinds = []string{"simple", "indexed", "multi", "multiarray"}

func newBase(kind string) factstore.FactStoreWithRemove {
	switch kind {
	case "simple":
		return factstore.NewSimpleInMemoryStore()
	case "indexed":
		return factstore.NewIndexedInMemoryStore()
	case "multi":
		return factstore.NewMultiIndexedInMemoryStore()
	case "multiarray":
		return factstore.NewMultiIndexedArrayInMemoryStore()
	}
	panic("unknown base kind " + kind)
}

// hashKeyed reports whether the kind identifies atoms by Atom.Hash() alone.
func hashKeyed(kind string) bool {
	switch kind {
	case "multiarray", "concurrent-multiarray", "merged-file", "merged-file-snapshot", "saved-partial-result", "teeing-snapshot":
		return false
	}
	return true
}

// engineStoreKinds are the store configurations the evaluation checks run on.
var engineStoreKinds = []string{"simple", "indexed", "multi", "multiarray", "concurrent-simple", "concurrent-multiarray", "merged", "teeing", "merged-file", "merged-file-snapshot", "temporal-adapter", "teeing-snapshot"}

// newEngineStore builds a writable store of the kind, pre-loaded with the base
// facts. For merged/teeing half of the base facts live in the read-only layer.
func newEngineStore(kind string, base []ast.Atom) factstore.FactStore {
	switch kind {
	case "simple", "indexed", "multi", "multiarray":
		s := newBase(kind)
		for _, a := range base {
			s.Add(a)
		}
		return s
	case "concurrent-simple", "concurrent-multiarray":
		s := newBase(kind[len("concurrent-"):])
		for _, a := range base {
			s.Add(a)
		}
		return factstore.NewConcurrentFactStore(s)
	case "merged":
		ro := factstore.NewMultiIndexedArrayInMemoryStore()
		w := factstore.NewMultiIndexedArrayInMemoryStore()
		// the layers are kept disjoint, as the documentation of MergedStore advises
		for i, a := range base {
			if i%2 == 0 {
				if !w.Contains(a) {
					ro.Add(a)
				}
			} else if !ro.Contains(a) {
				w.Add(a)
			}
		}
		return factstore.NewMergedStore([]factstore.ReadOnlyFactStore{ro}, w)
	case "merged-file", "merged-file-snapshot":
		// (snapshot: the caller adds part of the facts an earlier evaluation derived, as a saved result would hold them)
		// the base facts live in a simple-column file that is read lazily (SimpleColumnStore) below a writable layer
		src := factstore.NewMultiIndexedArrayInMemoryStore()
		for _, a := range base {
			src.Add(a)
		}
		var buf bytes.Buffer
		if err := (factstore.SimpleColumn{Deterministic: true}).WriteTo(src, &buf); err != nil {
			panic("merged-file: write: " + err.Error())
		}
		ro, err := factstore.NewSimpleColumnStoreFromBytes(buf.Bytes())
		if err != nil {
			panic("merged-file: open: " + err.Error())
		}
		return factstore.NewMergedStore([]factstore.ReadOnlyFactStore{ro}, factstore.NewMultiIndexedArrayInMemoryStore())
	case "temporal-adapter":
		// a temporal store seen through the adapter that lets the engine write eternal facts to it
		s := factstore.NewTemporalFactStoreAdapter(factstore.NewTemporalStore())
		for _, a := range base {
			s.Add(a)
		}
		return s
	case "teeing-snapshot":
		// everything the caller passes (base facts and part of an earlier evaluation's result) sits in the base layer
		// of a TeeingStore; the engine writes to the output layer and re-derives what the base already holds
		b := factstore.NewMultiIndexedArrayInMemoryStore()
		for _, a := range base {
			b.Add(a)
		}
		return factstore.NewTeeingStore(b)
	case "teeing":
		b := factstore.NewMultiIndexedArrayInMemoryStore()
		for i, a := range base {
			if i%2 == 0 {
				b.Add(a)
			}
		}
		t := factstore.NewTeeingStore(b)
		for i, a := range base {
			if i%2 == 1 {
				t.Add(a)
			}
		}
		return t
	}
	panic("unknown store kind " + kind)
}

// allFacts collects every fact of a store by listing predicates and querying
// each with an all-variables pattern; returns the list including duplicates.
func allFacts(s factstore.ReadOnlyFactStore) []ast.Atom {
	var out []ast.Atom
	seenPred := map[ast.PredicateSym]bool{}
	for _, p := range s.ListPredicates() {
		if seenPred[p] {
			continue
		}
		seenPred[p] = true
		s.GetFacts(ast.NewQuery(p), func(a ast.Atom) error {
			out = append(out, a)
			return nil
		})
	}
	return out
}
