package props

import (
	"encoding/json"
	"errors"
	"fmt"
	"math/rand"
	"strings"

	"codeberg.org/TauCeti/mangle-go/analysis"
	"codeberg.org/TauCeti/mangle-go/ast"
	"codeberg.org/TauCeti/mangle-go/engine"
	"codeberg.org/TauCeti/mangle-go/factstore"
	"codeberg.org/TauCeti/mangle-go/functional"
	"codeberg.org/TauCeti/mangle-go/provenance"

	"verif/internal/canon"
	"verif/internal/core"
	"verif/internal/gen"
)

// C15 — every explanation is a checkable derivation and every derived fact has one.

type c15Case struct {
	Prog      gen.ProgramV `json:"prog"`
	MaxProofs int          `json:"maxProofs"`
	MaxDepth  int          `json:"maxDepth"`
	Transform bool         `json:"transform"` // program may contain transforms (recorded mode only)
	Text      string       `json:"text,omitempty"`
	Knot      bool         `json:"knot,omitempty"` // densely mutually recursive unary program
}

type c15 struct{}

func init() { core.Register(c15{}) }

func (c15) ID() string { return "C15" }
func (c15) Cases(tier string) int {
	if tier == "thorough" {
		return 600000
	}
	return 30000
}
func (c15) Describe() core.Info {
	return core.Info{
		Level:          "exploration",
		Rule:           "transform-free typed random programs in the fragment the property names (positive atoms incl. wildcards, negated atoms, equalities incl. function expressions, inequalities; linear, non-linear and mutual recursion with several derivation paths; every third case is a 'knot': 3-7 unary predicates in one strongly connected component with 1-3 rules each (a quarter of them mention one predicate twice) on a domain of 1-2 constants, so that most goals recur below themselves and the cycle cut and the memo tables are exercised), every fact of the evaluated store as goal, MaxProofs in {1,3,10}, MaxDepth in {2,8,64}; both provenance.Explain and a MemoryRecorder + BuildFromRecording; a third of the cases are programs with let/do transforms, checked in recorded mode only. Independent proof checker: every derived node's fact is the rule head under the reported bindings (completed by unifying each positive/negated body literal with its sub-proof's fact, in body order, and by binding equalities), (in)equalities hold, EDB leaves are in the store, absence leaves are not, no fact is its own ancestor; let nodes have the body atoms under the row as premises, do nodes have exactly the facts of the group. Existence: with MaxDepth 64 every stored fact of a transform-free program has a complete (non-partial) proof. IDs: a table id<->canonical content accumulated over the whole worker run must stay a bijection. The store with and without a recorder must be equal. For six goals per program the question is asked again, as the first question, on a fresh copy of the recording: a fully complete proof must be found exactly when it was found after all the other goals had been asked on the original recorder (the answer is a function of recording, store, goal and options). Non-trivial: goal is derived and proof depth >= 2 or program has a recursion candidate; distinct by (program, options).",
		Assumptions:    []string{"comparison and other built-in predicates are outside the fragment for which the property promises a proof and are not generated in the transform-free workload"},
		PerCaseTimeout: 120e9,
	}
}

func (c15) Gen(r *rand.Rand, tier string, i int) any {
	c := c15Case{MaxProofs: []int{1, 3, 10}[r.Intn(3)], MaxDepth: []int{2, 8, 64, 64}[r.Intn(4)]}
	if i%6 == 1 || i%6 == 4 {
		// dense mutual recursion: most goals are reached again below themselves
		c.Prog = gen.RandKnotProgram(r)
		c.MaxDepth = 64
		c.Knot = true
	} else if i%3 == 2 {
		c.Transform = true
		o := gen.ProgOpts{Negation: true, Compare: false, Functions: r.Intn(3) == 0, Unguarded: true, Let: true, Do: true, DoPercent: 60, Wildcards: false, MaxIDB: 4}
		c.Prog = gen.RandProgram(r, o)
	} else {
		// no built-in predicates at all: function expressions are unguarded, divergent programs are cut by a fact limit and skipped
		o := gen.ProgOpts{Negation: true, Compare: false, Functions: r.Intn(3) == 0, Unguarded: true, Lists: false, Wildcards: r.Intn(2) == 0, FnInAtoms: r.Intn(2) == 0, MaxIDB: 4}
		c.Prog = gen.RandProgram(r, o)
	}
	c.Text = progText(c.Prog)
	return c
}

func (c15) Decode(raw json.RawMessage) (any, error) {
	var c c15Case
	err := json.Unmarshal(raw, &c)
	return c, err
}

// ---- the independent proof checker

type proofChecker struct {
	facts   canon.Set // store content
	edb     map[ast.PredicateSym]bool
	pi      *analysis.ProgramInfo
	depthOK bool // MaxDepth was large: Partial is not expected
	memo    map[*provenance.ProofNode]*nodeInfo
}

type subst map[string]ast.Constant

func (s subst) Get(v ast.Variable) ast.BaseTerm {
	if c, ok := s[v.Symbol]; ok {
		return c
	}
	return nil
}

// unifyArgs extends s so that pattern args (after evaluating closed function
// expressions under s) equal the fact's args. Wildcards match anything.
func (s subst) unifyAtom(pat ast.Atom, fact ast.Atom) error {
	if pat.Predicate != fact.Predicate || len(pat.Args) != len(fact.Args) {
		return fmt.Errorf("predicate %v vs %v", pat.Predicate, fact.Predicate)
	}
	for i, a := range pat.Args {
		fc, ok := fact.Args[i].(ast.Constant)
		if !ok {
			if pv, isVar := a.(ast.Variable); isVar && pv.Symbol == "_" {
				if fv, isVar := fact.Args[i].(ast.Variable); isVar && fv.Symbol == "_" {
					continue // wildcard position of an absence leaf
				}
			}
			return fmt.Errorf("sub-proof fact %v is not ground", fact)
		}
		switch t := a.(type) {
		case ast.Variable:
			if t.Symbol == "_" {
				continue
			}
			if cur, ok := s[t.Symbol]; ok {
				if canon.Const(cur) != canon.Const(fc) {
					return fmt.Errorf("variable %s is %v but argument %d of %v is %v", t.Symbol, cur, i, fact, fc)
				}
			} else {
				s[t.Symbol] = fc
			}
		case ast.Constant:
			if canon.Const(t) != canon.Const(fc) {
				return fmt.Errorf("argument %d: %v vs %v", i, t, fc)
			}
		case ast.ApplyFn:
			v, err := functional.EvalExpr(t, s)
			if err != nil {
				return fmt.Errorf("argument %d: %v", i, err)
			}
			vc, ok := v.(ast.Constant)
			if !ok || canon.Const(vc) != canon.Const(fc) {
				return fmt.Errorf("argument %d: %v evaluates to %v, fact has %v", i, t, v, fc)
			}
		}
	}
	return nil
}

func (pc *proofChecker) evalClosed(t ast.BaseTerm, s subst) (ast.Constant, bool) {
	vars := map[ast.Variable]bool{}
	ast.AddVars(t, vars)
	for v := range vars {
		if _, ok := s[v.Symbol]; !ok {
			return ast.Constant{}, false
		}
	}
	r, err := functional.EvalExpr(t, s)
	if err != nil {
		return ast.Constant{}, false
	}
	c, ok := r.(ast.Constant)
	return c, ok
}

type nodeInfo struct {
	err    error
	below  map[string]bool // facts strictly below this node (absence leaves excluded)
	height int
}

// check validates one proof DAG (memoised per node): local validity of every
// node, and no fact strictly below itself.
func (pc *proofChecker) check(n *provenance.ProofNode, path map[string]bool, depth int, maxDepthSeen *int) error {
	if pc.memo == nil {
		pc.memo = map[*provenance.ProofNode]*nodeInfo{}
	}
	info := pc.visit(n)
	if info.height > *maxDepthSeen {
		*maxDepthSeen = info.height
	}
	return info.err
}

func (pc *proofChecker) visit(n *provenance.ProofNode) *nodeInfo {
	if n == nil {
		return &nodeInfo{err: fmt.Errorf("nil proof node")}
	}
	if info, ok := pc.memo[n]; ok {
		if info == nil {
			return &nodeInfo{err: fmt.Errorf("proof graph has a pointer cycle at %v", n.Fact)}
		}
		return info
	}
	pc.memo[n] = nil // in progress
	info := &nodeInfo{below: map[string]bool{}}
	isMarker := n.Partial && n.Kind == provenance.KindEDB && n.Rule == nil && strings.Contains(n.ID, "/partial/")
	for _, p := range n.Premises {
		pi := pc.visit(p)
		if pi.err != nil && info.err == nil {
			info.err = pi.err
		}
		if pi.height+1 > info.height {
			info.height = pi.height + 1
		}
		pm := p.Partial && p.Kind == provenance.KindEDB && p.Rule == nil && strings.Contains(p.ID, "/partial/")
		if p.Kind != provenance.KindAbsence && !pm {
			info.below[canon.Atom(p.Fact)] = true
		}
		for k := range pi.below {
			info.below[k] = true
		}
	}
	if info.err == nil && !isMarker && n.Kind != provenance.KindAbsence && info.below[canon.Atom(n.Fact)] {
		info.err = fmt.Errorf("fact %v is its own ancestor", n.Fact)
	}
	if info.err == nil {
		d := 0
		info.err = pc.checkNode(n, map[string]bool{}, 0, &d)
	}
	pc.memo[n] = info
	return info
}

// checkNode validates one node locally (its premises are validated by visit).
func (pc *proofChecker) checkNode(n *provenance.ProofNode, path map[string]bool, depth int, maxDepthSeen *int) error {
	if n == nil {
		return fmt.Errorf("nil proof node")
	}
	if !n.Fact.IsGround() {
		// an absence leaf may stand for "no tuple matches": wildcards allowed
		okWild := n.Kind == provenance.KindAbsence
		for _, a := range n.Fact.Args {
			if v, isVar := a.(ast.Variable); isVar && v.Symbol != "_" {
				okWild = false
			} else if _, isFn := a.(ast.ApplyFn); isFn {
				okWild = false
			}
		}
		if !okWild {
			return fmt.Errorf("node fact %v is not ground", n.Fact)
		}
	}
	key := canon.Atom(n.Fact)
	if n.Partial && n.Kind == provenance.KindEDB && n.Rule == nil && strings.Contains(n.ID, "/partial/") {
		return nil // depth cut marker: "not expanded", not a derivation step
	}
	_ = key
	switch n.Kind {
	case provenance.KindEDB:
		if !pc.facts.Has(n.Fact) {
			return fmt.Errorf("EDB leaf %v is not in the store", n.Fact)
		}
		if len(n.Premises) != 0 {
			return fmt.Errorf("EDB leaf %v has premises", n.Fact)
		}
		return nil
	case provenance.KindAbsence:
		for _, f := range pc.facts {
			if f.Predicate == n.Fact.Predicate && (subst{}).unifyAtom(n.Fact, f) == nil {
				return fmt.Errorf("absence leaf %v is refuted by the stored fact %v", n.Fact, f)
			}
		}
		return nil
	}
	if n.Rule == nil {
		return fmt.Errorf("inner node for %v has no rule", n.Fact)
	}
	rule := *n.Rule
	switch n.Kind {
	case provenance.KindDerived:
		s := subst{}
		for _, b := range n.Bindings {
			s[b.Var.Symbol] = b.Value
		}
		// the rule must be a rule of the program with this head predicate
		if rule.Head.Predicate != n.Fact.Predicate {
			return fmt.Errorf("rule %v does not define %v", rule, n.Fact.Predicate)
		}
		// closeEq extends the (partial) reported bindings by the rule's binding equalities: a variable that only
		// an equality defines (N5 = fn:plus(N4,N1)) is not among the reported bindings, but a function expression
		// in a later atom may use it
		closeEq := func() {
			for changed := true; changed; {
				changed = false
				for _, lit := range rule.Premises {
					eq, ok := lit.(ast.Eq)
					if !ok {
						continue
					}
					l, okL := pc.evalClosed(eq.Left, s)
					r, okR := pc.evalClosed(eq.Right, s)
					if okL && !okR {
						if v, ok := eq.Right.(ast.Variable); ok && v.Symbol != "_" {
							s[v.Symbol] = l
							changed = true
						}
					}
					if okR && !okL {
						if v, ok := eq.Left.(ast.Variable); ok && v.Symbol != "_" {
							s[v.Symbol] = r
							changed = true
						}
					}
				}
			}
		}
		pi := 0
		for _, lit := range rule.Premises {
			closeEq()
			switch l := lit.(type) {
			case ast.Atom:
				if l.Predicate.IsBuiltin() {
					continue
				}
				if pi >= len(n.Premises) {
					if n.Partial {
						return nil
					}
					return fmt.Errorf("proof of %v by %v has %d premises, fewer than the rule's body literals", n.Fact, rule, len(n.Premises))
				}
				sub := n.Premises[pi]
				if n.Partial && (sub.Kind == provenance.KindAbsence || sub.Fact.Predicate != l.Predicate) {
					continue // a node marked Partial may omit the sub-proof of this literal
				}
				pi++
				if sub.Kind == provenance.KindAbsence {
					return fmt.Errorf("positive literal %v is proved by an absence leaf", l)
				}
				if n.Partial {
					// a node marked Partial may have omitted the sub-proof of this literal:
					// try the literal on a copy and move on to the next literal if it does not fit
					trial := subst{}
					for k, v := range s {
						trial[k] = v
					}
					if trial.unifyAtom(l, sub.Fact) != nil {
						pi--
						continue
					}
				}
				if err := s.unifyAtom(l, sub.Fact); err != nil {
					return fmt.Errorf("premise %v of %v does not match sub-proof fact %v under the bindings: %v", l, rule, sub.Fact, err)
				}
			case ast.NegAtom:
				if pi >= len(n.Premises) {
					if n.Partial {
						return nil
					}
					return fmt.Errorf("proof of %v by %v lacks the premise for %v", n.Fact, rule, l)
				}
				sub := n.Premises[pi]
				if n.Partial && (sub.Kind != provenance.KindAbsence || sub.Fact.Predicate != l.Atom.Predicate) {
					continue
				}
				pi++
				if sub.Kind != provenance.KindAbsence {
					return fmt.Errorf("negated literal %v is proved by a node of kind %d", l, sub.Kind)
				}
				if err := s.unifyAtom(l.Atom, sub.Fact); err != nil {
					return fmt.Errorf("negated premise %v does not match absence leaf %v: %v", l, sub.Fact, err)
				}
				// wildcards: absence must hold for every instance
				hasWild := false
				for _, a := range l.Atom.Args {
					if v, ok := a.(ast.Variable); ok && v.Symbol == "_" {
						hasWild = true
					}
				}
				if hasWild {
					for _, f := range pc.facts {
						if f.Predicate == l.Atom.Predicate && (subst{}).unifyAtomCopy(s, l.Atom, f) {
							return fmt.Errorf("negated literal %v is refuted by stored fact %v", l, f)
						}
					}
				}
			}
		}
		if pi != len(n.Premises) && !n.Partial {
			return fmt.Errorf("proof of %v by %v has %d premises, the rule has %d positive/negated literals", n.Fact, rule, len(n.Premises), pi)
		}
		// binding equalities, then tests
		closeEq()
		for _, lit := range rule.Premises {
			switch l := lit.(type) {
			case ast.Eq:
				a, okA := pc.evalClosed(l.Left, s)
				b, okB := pc.evalClosed(l.Right, s)
				if okA && okB && canon.Const(a) != canon.Const(b) {
					return fmt.Errorf("equality %v of %v is false under the bindings (%v vs %v)", l, rule, a, b)
				}
			case ast.Ineq:
				a, okA := pc.evalClosed(l.Left, s)
				b, okB := pc.evalClosed(l.Right, s)
				if okA && okB && canon.Const(a) == canon.Const(b) {
					return fmt.Errorf("inequality %v of %v is false under the bindings", l, rule)
				}
			}
		}
		head, err := functional.EvalAtom(rule.Head, s)
		if err != nil || !head.IsGround() {
			if n.Partial {
				return nil
			}
			return fmt.Errorf("head %v of the rule is not ground under the bindings %v (err %v)", rule.Head, s, err)
		}
		if canon.Atom(head) != canon.Atom(n.Fact) {
			return fmt.Errorf("node proves %v but the rule head under the bindings is %v", n.Fact, head)
		}
		return nil
	case provenance.KindLetRow, provenance.KindDoAggregate:
		if rule.Transform == nil {
			return fmt.Errorf("transform node for %v carries rule %v without a transform", n.Fact, rule)
		}
		if n.Kind == provenance.KindDoAggregate {
			return pc.checkDo(n, rule)
		}
		return pc.checkLet(n, rule)
	}
	return fmt.Errorf("unknown node kind %d", n.Kind)
}

func (s subst) unifyAtomCopy(base subst, pat ast.Atom, fact ast.Atom) bool {
	c := subst{}
	for k, v := range base {
		c[k] = v
	}
	return c.unifyAtom(pat, fact) == nil
}

// checkLet: the premises are the body atoms under one row; the output is the head under row + let statements.
func (pc *proofChecker) checkLet(n *provenance.ProofNode, rule ast.Clause) error {
	s := subst{}
	pi := 0
	for _, lit := range rule.Premises {
		a, ok := lit.(ast.Atom)
		if !ok || a.Predicate.IsBuiltin() {
			continue
		}
		if pi >= len(n.Premises) {
			if n.Partial {
				return nil
			}
			return fmt.Errorf("let node for %v has fewer premises than body atoms", n.Fact)
		}
		if err := s.unifyAtom(a, n.Premises[pi].Fact); err != nil {
			if n.Partial {
				return nil // a let node marked Partial may omit premises
			}
			return fmt.Errorf("let node for %v: body atom %v does not match premise %v: %v", n.Fact, a, n.Premises[pi].Fact, err)
		}
		pi++
	}
	// binding equalities
	for _, lit := range rule.Premises {
		if eq, ok := lit.(ast.Eq); ok {
			if l, ok := pc.evalClosed(eq.Left, s); ok {
				if v, ok := eq.Right.(ast.Variable); ok {
					if _, bound := s[v.Symbol]; !bound {
						s[v.Symbol] = l
					}
				}
			}
			if r, ok := pc.evalClosed(eq.Right, s); ok {
				if v, ok := eq.Left.(ast.Variable); ok {
					if _, bound := s[v.Symbol]; !bound {
						s[v.Symbol] = r
					}
				}
			}
		}
	}
	for _, st := range rule.Transform.Statements {
		if st.Var == nil {
			continue
		}
		v, ok := pc.evalClosed(st.Fn, s)
		if !ok {
			if n.Partial {
				return nil
			}
			return fmt.Errorf("let node for %v: %v cannot be evaluated under the row", n.Fact, st.Fn)
		}
		s[st.Var.Symbol] = v
	}
	head, err := functional.EvalAtom(rule.Head, s)
	if err != nil || !head.IsGround() {
		if n.Partial {
			return nil
		}
		return fmt.Errorf("let node for %v: head not ground under the row", n.Fact)
	}
	if canon.Atom(head) != canon.Atom(n.Fact) {
		return fmt.Errorf("let node proves %v but head under row and let statements is %v", n.Fact, head)
	}
	return nil
}

// checkDo: the premises are exactly the stored facts of the (single-atom) body
// that belong to the group given by GroupKey.
func (pc *proofChecker) checkDo(n *provenance.ProofNode, rule ast.Clause) error {
	if len(rule.Premises) != 1 {
		return nil // multi-atom bodies are rewritten to an internal predicate; premises are internal facts
	}
	body, ok := rule.Premises[0].(ast.Atom)
	if !ok {
		return nil
	}
	keyVars := rule.Transform.Statements[0].Fn.Args
	if len(keyVars) != len(n.GroupKey) {
		return fmt.Errorf("do node for %v: %d key values for %d key variables", n.Fact, len(n.GroupKey), len(keyVars))
	}
	want := map[string]bool{}
	for _, f := range pc.facts {
		if f.Predicate != body.Predicate {
			continue
		}
		s := subst{}
		if s.unifyAtom(body, f) != nil {
			continue
		}
		match := true
		for i, kv := range keyVars {
			v, ok := kv.(ast.Variable)
			if !ok {
				continue
			}
			if c, ok := s[v.Symbol]; !ok || canon.Const(c) != canon.Const(n.GroupKey[i]) {
				match = false
			}
		}
		if match {
			want[canon.Atom(f)] = true
		}
	}
	got := map[string]bool{}
	for _, p := range n.Premises {
		got[canon.Atom(p.Fact)] = true
	}
	if n.Partial {
		return nil
	}
	for k := range want {
		if !got[k] {
			return fmt.Errorf("do node for %v (key %v) lacks the group's fact %s among its premises", n.Fact, n.GroupKey, k)
		}
	}
	for k := range got {
		if !want[k] {
			return fmt.Errorf("do node for %v (key %v) lists %s which is not in the group", n.Fact, n.GroupKey, k)
		}
	}
	return nil
}

// ---- id table (per worker process)

var c15IDToContent = map[string]string{}
var c15ContentToID = map[string]string{}

func c15Content(n *provenance.ProofNode) string {
	var sb strings.Builder
	fmt.Fprintf(&sb, "k%d|", n.Kind)
	if n.Rule != nil {
		sb.WriteString(n.Rule.String())
	}
	sb.WriteString("|")
	sb.WriteString(canon.Atom(n.Fact))
	sb.WriteString("|")
	for _, p := range n.Premises {
		sb.WriteString(p.ID)
		sb.WriteString(",")
	}
	if n.Partial && strings.Contains(n.ID, "/partial/") {
		sb.WriteString("|depth-cut")
	}
	return sb.String()
}

func c15RegisterIDs(n *provenance.ProofNode, seen map[*provenance.ProofNode]bool) error {
	if seen[n] {
		return nil
	}
	seen[n] = true
	for _, p := range n.Premises {
		if err := c15RegisterIDs(p, seen); err != nil {
			return err
		}
	}
	content := c15Content(n)
	if prev, ok := c15IDToContent[n.ID]; ok && prev != content {
		return fmt.Errorf("proof id %s stands for two different proofs:\n  %s\n  %s", n.ID, prev, content)
	}
	if prev, ok := c15ContentToID[content]; ok && prev != n.ID {
		return fmt.Errorf("one proof content has two ids %s and %s: %s", prev, n.ID, content)
	}
	c15IDToContent[n.ID] = content
	c15ContentToID[content] = n.ID
	return nil
}

type c15Fail struct{ sig, msg string }

func c15Exec(c c15Case, res *core.Result) (skip string, fail *c15Fail) {
	pi, err := analyze(c.Prog, true)
	if err != nil {
		return "analysis-rejected", nil
	}
	plain := factstore.NewMultiIndexedArrayInMemoryStore()
	if err := engine.EvalProgram(pi, plain, engine.WithCreatedFactLimit(40)); err != nil {
		return "evaluation-error-or-limit", nil
	}
	rec := provenance.NewMemoryRecorder()
	recorded := factstore.NewMultiIndexedArrayInMemoryStore()
	if err := engine.EvalProgram(pi, recorded, engine.WithDerivationRecorder(rec), engine.WithCreatedFactLimit(40)); err != nil {
		if strings.Contains(err.Error(), "limit") {
			// the workload's own size bound; whether it strikes at the boundary depends on the round structure
			return "evaluation-error-or-limit", nil
		}
		return "", &c15Fail{"recorder-changes-result", fmt.Sprintf("evaluation with a recorder fails: %v", err)}
	}
	a, _, _ := storeSet(plain)
	b, _, _ := storeSet(recorded)
	cols := setColPreds(c.Prog)
	if x, y := canon.Diff(normSetCols(a, cols), normSetCols(b, cols), 5); len(x) > 0 || len(y) > 0 {
		return "", &c15Fail{"recorder-changes-result", fmt.Sprintf("attaching a recorder changes the store: only without %v, only with %v", x, y)}
	}
	all := canon.Set{}
	for _, f := range allFacts(plain) {
		all.Add(f)
	}
	allRec := canon.Set{}
	for _, f := range allFacts(recorded) {
		allRec.Add(f)
	}
	pcPlain := &proofChecker{facts: all, pi: pi, depthOK: c.MaxDepth >= 64}
	pcRec := &proofChecker{facts: allRec, pi: pi, depthOK: c.MaxDepth >= 64}
	opts := provenance.Options{MaxProofs: c.MaxProofs, MaxDepth: c.MaxDepth}
	// Questions with a tight depth limit first; their (cut) answers must leave no trace in later answers.
	pre := 0
	for _, k := range all.Keys() {
		if g := all[k]; !g.Predicate.IsInternalPredicate() {
			if pre++; pre > 4 {
				break
			}
			provenance.BuildFromRecording(rec, recorded, g, provenance.Options{MaxProofs: 2, MaxDepth: 1})
		}
	}
	goals := 0
	recStrict := map[string]bool{} // (goal, MaxProofs) -> BuildFromRecording returned a proof without any Partial node
	for _, k := range all.Keys() {
		goal := all[k]
		if goal.Predicate.IsInternalPredicate() {
			continue
		}
		goals++
		_, isIDB := pi.IdbPredicates[goal.Predicate]
		type mode struct {
			name string
			run  func() ([]*provenance.ProofNode, error)
			pc   *proofChecker
		}
		modes := []mode{{"recorded", func() ([]*provenance.ProofNode, error) {
			return provenance.BuildFromRecording(rec, recorded, goal, opts)
		}, pcRec}}
		if !c.Transform {
			modes = append(modes, mode{"explain", func() ([]*provenance.ProofNode, error) { return provenance.Explain(pi, plain, goal, opts) }, pcPlain})
		}
		limits := []int{c.MaxProofs}
		if c.Knot {
			limits = []int{1, 2, 3, 10} // the alternatives of a goal share sub-proofs: every limit is another path through the memo tables
		}
		for _, mp := range limits {
			opts.MaxProofs = mp
			for _, m := range modes {
				var proofs []*provenance.ProofNode
				var perr error
				panicMsg := ""
				func() {
					defer func() {
						if r := recover(); r != nil {
							panicMsg = fmt.Sprint(r)
						}
					}()
					proofs, perr = m.run()
				}()
				if panicMsg != "" {
					return "", &c15Fail{m.name + ":panic", fmt.Sprintf("%s panics on goal %v: %s", m.name, goal, panicMsg)}
				}
				if perr != nil {
					if errors.Is(perr, provenance.ErrNoProof) {
						if c.Transform {
							continue // existence is only promised for transform-free programs
						}
						return "", &c15Fail{m.name + ":no-proof" + c15Why(c.Prog, goal), fmt.Sprintf("%s: stored fact %v of a transform-free program has no proof", m.name, goal)}
					}
					return "", &c15Fail{m.name + ":error", fmt.Sprintf("%s: goal %v: %v", m.name, goal, perr)}
				}
				if len(proofs) > mp {
					return "", &c15Fail{m.name + ":too-many-proofs", fmt.Sprintf("%s returned %d proofs for MaxProofs %d", m.name, len(proofs), mp)}
				}
				complete := false
				if m.name == "recorded" {
					strict := false
					for _, p := range proofs {
						if !c15AnyPartial(p) {
							strict = true
						}
					}
					recStrict[fmt.Sprint(k, "/", mp)] = strict
				}
				for _, p := range proofs {
					if canon.Atom(p.Fact) != canon.Atom(goal) {
						return "", &c15Fail{m.name + ":wrong-goal", fmt.Sprintf("%s: proof for %v proves %v", m.name, goal, p.Fact)}
					}
					maxD := 0
					if err := m.pc.check(p, map[string]bool{}, 0, &maxD); err != nil {
						return "", &c15Fail{m.name + ":invalid-proof", fmt.Sprintf("%s: proof of %v is not a valid derivation: %v", m.name, goal, err)}
					}
					if err := c15RegisterIDs(p, map[*provenance.ProofNode]bool{}); err != nil {
						return "", &c15Fail{m.name + ":id-not-content-addressed", err.Error()}
					}
					if !c15AnyPartial(p) || c15DepthLimited(p) {
						// a proof cut at MaxDepth is legitimately partial: the derivation is deeper than the limit
						complete = true
					}
					if res != nil {
						res.Ob("proofs_checked", 1)
						if isIDB && maxD >= 2 {
							res.Ob("derived_goals_with_depth_2+", 1)
						}
					}
				}
				if !complete && !c.Transform && c.MaxDepth >= 64 {
					return "", &c15Fail{m.name + ":only-partial-proofs" + c15Why(c.Prog, goal), fmt.Sprintf("%s: every proof of %v is marked Partial although the program is transform-free and the depth limit was not reached", m.name, goal)}
				}
			}
		}
	}
	// The result of BuildFromRecording is a function of the recording, the store, the goal and the options: asking
	// again on a fresh copy of the recording (same events, same order), as the very first question, must find a
	// fully complete proof exactly when the question found one after all the other goals had been asked.
	checked := 0
	for _, k := range all.Keys() {
		goal := all[k]
		if goal.Predicate.IsInternalPredicate() {
			continue
		}
		if checked++; checked > 6 {
			break
		}
		for key, was := range recStrict {
			var mp int
			if !strings.HasPrefix(key, k+"/") {
				continue
			}
			fmt.Sscan(strings.TrimPrefix(key, k+"/"), &mp)
			clone := provenance.NewMemoryRecorder()
			for _, ev := range rec.Events() {
				switch ev.Kind {
				case provenance.EventRule:
					clone.RuleFired(ev.Rule, ev.Head, ev.Subst, ev.PremiseFacts)
				case provenance.EventLet:
					clone.LetEmit(ev.Rule, ev.Head, ev.Row, ev.Output)
				case provenance.EventDo:
					clone.DoEmit(ev.Rule, ev.Head, ev.GroupKey, ev.InputFacts, ev.Output)
				}
			}
			fresh, ferr := provenance.BuildFromRecording(clone, recorded, goal, provenance.Options{MaxProofs: mp, MaxDepth: c.MaxDepth})
			strict := false
			if ferr == nil {
				for _, p := range fresh {
					if !c15AnyPartial(p) {
						strict = true
					}
				}
			}
			if res != nil {
				res.Ob("goals_asked_again_on_a_fresh_copy_of_the_recording", 1)
			}
			if strict != was {
				return "", &c15Fail{"recorded:result-depends-on-earlier-calls", fmt.Sprintf("BuildFromRecording(%v, MaxProofs %d, MaxDepth %d): asked first on a fresh copy of the recording a fully complete proof is found: %v; asked after the other goals on the same recorder: %v", goal, mp, c.MaxDepth, strict, was)}
			}
		}
	}
	if res != nil {
		res.Ob("goals", goals)
		res.Evals = goals
		if goals == 0 {
			res.Evals = 1
		}
	}
	return "", nil
}

// c15DepthLimited reports whether the proof contains a depth-cut marker.
func c15DepthLimited(n *provenance.ProofNode) bool {
	seen := map[*provenance.ProofNode]bool{}
	var rec func(n *provenance.ProofNode) bool
	rec = func(n *provenance.ProofNode) bool {
		if n == nil || seen[n] {
			return false
		}
		seen[n] = true
		if n.Partial && n.Rule == nil && strings.Contains(n.ID, "/partial/") {
			return true
		}
		for _, p := range n.Premises {
			if rec(p) {
				return true
			}
		}
		return false
	}
	return rec(n)
}

func c15AnyPartial(n *provenance.ProofNode) bool {
	seen := map[*provenance.ProofNode]bool{}
	var rec func(n *provenance.ProofNode) bool
	rec = func(n *provenance.ProofNode) bool {
		if n == nil || seen[n] {
			return false
		}
		seen[n] = true
		if n.Partial {
			return true
		}
		for _, p := range n.Premises {
			if rec(p) {
				return true
			}
		}
		return false
	}
	return rec(n)
}

// c15Why names a feature of the rules defining the goal's predicate (for signatures).
func c15Why(p gen.ProgramV, goal ast.Atom) string {
	feat := map[string]bool{}
	for _, r := range p.Rules {
		if r.Head.Pred != goal.Predicate.Symbol {
			continue
		}
		for _, a := range r.Head.Args {
			if a.K == "fn" {
				feat["head-function"] = true
			}
		}
		for _, l := range r.Body {
			switch l.K {
			case "eq":
				if l.L.K == "fn" || l.R.K == "fn" {
					feat["binding-equality"] = true
				}
			case "atom":
				for _, a := range l.Args {
					if a.K == "var" && a.Name == "_" {
						feat["wildcard"] = true
					}
				}
				if l.Pred == r.Head.Pred {
					feat["recursion"] = true
				}
			case "neg":
				feat["negation"] = true
			}
		}
	}
	for _, k := range []string{"head-function", "binding-equality", "wildcard", "negation", "recursion"} {
		if feat[k] {
			return ":" + k
		}
	}
	return ""
}

func (c15) Run(cs any) core.Result {
	c := cs.(c15Case)
	var res core.Result
	res.Key = core.HashKey(progText(c.Prog), fmt.Sprint(c.MaxProofs, c.MaxDepth))
	skip, fail := c15Exec(c, &res)
	if skip != "" {
		res.Ob("skipped:"+skip, 1)
		return res
	}
	f := progFeatures(c.Prog)
	res.NonTrivial = f["recursion-candidate"] || res.Obs["derived_goals_with_depth_2+"] > 0
	if c.Knot {
		res.Ob("knot_programs", 1)
	}
	if c.Transform {
		res.Ob("programs_with_transforms", 1)
	} else {
		res.Ob("transform_free_programs", 1)
	}
	if fail == nil {
		return res
	}
	sig := fail.sig
	min := c
	if core.ShrinkAllowed(sig) {
		pc := shrinkProg(progCase{Prog: c.Prog}, func(t progCase) bool {
			x := c
			x.Prog = t.Prog
			s, f := c15Exec(x, nil)
			cls := func(x string) string {
				parts := strings.SplitN(x, ":", 3)
				if len(parts) >= 2 {
					return parts[0] + ":" + parts[1]
				}
				return x
			}
			return s == "" && f != nil && cls(f.sig) == cls(sig)
		})
		min.Prog = pc.Prog
		min.Text = progText(pc.Prog)
	}
	msg := fail.msg
	if _, f := c15Exec(min, nil); f != nil {
		msg = f.msg
		sig = f.sig
	}
	raw, _ := json.Marshal(min)
	res.Violations = append(res.Violations, core.Violation{Sig: sig, Msg: msg + "\nminimal program:\n" + min.Text, Witness: raw})
	return res
}
