package props

import (
	"encoding/json"
	"fmt"
	"io"
	"math/rand"
	"os"
	"path/filepath"
	"sort"
	"strings"
	"sync"

	"codeberg.org/TauCeti/mangle-go/ast"
	"codeberg.org/TauCeti/mangle-go/interpreter"

	"verif/internal/core"
)

// C16 — interactive definitions and pop compose like a stack.

type c16Cmd struct {
	Op  string `json:"op"` // load define pop
	Arg string `json:"arg,omitempty"`
}

type c16Case struct {
	Cmds []c16Cmd `json:"cmds"`
}

type c16 struct{}

func init() { core.Register(c16{}) }

func (c16) ID() string { return "C16" }
func (c16) Cases(tier string) int {
	if tier == "thorough" {
		return 150000
	}
	return 6000
}
func (c16) Describe() core.Info {
	return core.Info{
		Level: "exploration",
		Rule: "command histories of 3-25 commands over a pool of 18 small source files (facts only, declarations for predicates that another file defines without one, rules over other files' predicates, declarations with bounds, temporal facts and rules, an extensional temporal predicate declared by one file that receives facts from other files and from interactive definitions, a file with a syntax error, a file redefining another file's predicate, a file that turns another file's predicate into a lattice predicate whose merge replaces facts) and 32 clause texts (valid facts and rules, rules over loaded predicates, negation, parse errors, analysis errors, redefinitions, declarations); loads of one and several files, the same file twice, pops on empty. After EVERY command the interpreter under test is compared with a fresh interpreter that replays only the live fragments in order (model: load discards the interactive fragment then pushes iff it succeeds; define replaces the interactive fragment iff it succeeds; pop drops the interactive fragment if there is one, else the top loaded fragment): success/failure of the command itself, error status of ParseQuery for each of 24 predicate names, and the multiset of query results. Non-trivial: a pop after >= 2 pushes or a failed define after a successful one; distinct by command sequence.",
		Assumptions: []string{"histories are cut at the first command whose *evaluation* fails (state afterwards is unspecified)"},
	}
}

var c16Files = map[string]string{
	"a.mg":        "a(1).\na(2).\n",
	"b.mg":        "b(X) :- a(X).\n",
	"c.mg":        "c(3).\ncc(X) :- c(X).\n",
	"d.mg":        "Decl d(X) bound [/number].\nd(4).\n",
	"e.mg":        "e(X) :- b(X), a(X).\n",
	"t.mg":        "t(1)@[2024-01-01, 2024-01-05].\nt(2)@[2024-02-01, 2024-02-03].\n",
	"u.mg":        "u(X)@[S, E] :- t(X)@[S, E].\n",
	"n.mg":        "n(X) :- a(X), !c(X).\n",
	"bad.mg":      "a(1.\n",
	"conflict.mg": "a(9).\n",
	// declarations for predicates that another file defines without one
	"adecl.mg":  "Decl a(X) bound [/number].\nr(X) :- a(X).\n",
	"adecl2.mg": "Decl a(X) bound [/number].\na(8).\n",
	"cdecl.mg":  "Decl c(X) bound [/number].\nDecl b(X) bound [/number].\n",
	// an extensional temporal predicate that is declared by one file and receives facts from others
	"ev.mg":  "Decl ev(X) temporal descr [extensional()] bound [/name].\nev(/a)@[2024-01-01T00:00:00, 2024-01-02T00:00:00].\n",
	"ev2.mg": "ev(/b)@[2024-02-01T00:00:00, 2024-02-02T00:00:00].\n",
	// a lattice predicate (functional dependency + merge) declared by a later fragment over facts of an earlier one: the
	// merge replaces facts, which must not reach below the fragment's own layer
	"dist.mg": "dist(/a, 10).\ndist(/b, 7).\n",
	"lat.mg":  "Decl dist(K, V) descr [fundep([K], [V]), merge([V], 'smaller')].\nDecl smaller(A, B, C) descr [mode('+', '+', '-'), deferred()].\nsmaller(A, B, C) :- A < B, C = A.\nsmaller(A, B, C) :- B <= A, C = B.\ncand(/a, 3).\ncand(/b, 9).\ndist(K, V) :- cand(K, V).\n",
	"ev3.mg": "ev(/d)@[2024-04-01T00:00:00, 2024-04-02T00:00:00].\nevu(X)@[S, E] :- ev(X)@[S, E].\n",
}

var c16FileNames = []string{"a.mg", "b.mg", "c.mg", "d.mg", "e.mg", "t.mg", "u.mg", "n.mg", "bad.mg", "conflict.mg", "adecl.mg", "adecl2.mg", "cdecl.mg", "ev.mg", "ev2.mg", "ev3.mg", "dist.mg", "lat.mg"}

var c16Clauses = []string{
	"f(1).", "f(2).", "g(X) :- f(X).", "h(X) :- a(X).", "k(X) :- b(X), !c(X).", "f(", "z(X) :- y(X).", "w(X) :- f(Y).",
	"a(7).", "Decl m(X) bound [/number].", "m(1).", "m(\"s\").", "g(X) :- c(X).", "h(X) :- cc(X), a(X).", "f(3). f(4).", "q(X) :- d(X).",
	"q(X) :- u(X)@[S, E].", "c(5).", "g(X) :- g(X).", "k(1).", "h(X) :- f(X), X != 1.", "e(5).",
	"Decl a(X) bound [/number]. zz(X) :- a(X).", "Decl a(X) bound [/number]. zz(X) :- nope(X).", "Decl c(X) bound [/number]. zc(X) :- c(X).", "Decl f(X) bound [/number].", "Decl b(X) bound [/number].", "zz(X) :- a(X).",
	"ev(/c)@[2024-03-01T00:00:00, 2024-03-02T00:00:00].", "t(3)@[2024-03-01, 2024-03-02].",
	"Decl dist(K, V) descr [fundep([K], [V]), merge([V], 'smaller')]. Decl smaller(A, B, C) descr [mode('+', '+', '-'), deferred()]. smaller(A, B, C) :- A < B, C = A. smaller(A, B, C) :- B <= A, C = B. cand(/a, 3). cand(/b, 2). dist(K, V) :- cand(K, V). ", "dist(/c, 1).",
}

var c16Preds = []string{"a", "b", "c", "cc", "d", "e", "t", "u", "n", "f", "g", "h", "k", "m", "q", "z", "w", "r", "zz", "zc", "ev", "evu", "dist", "cand"}

func (c16) Gen(r *rand.Rand, tier string, i int) any {
	n := 3 + r.Intn(23)
	var c c16Case
	for k := 0; k < n; k++ {
		switch x := r.Intn(100); {
		case x < 35:
			f := c16FileNames[r.Intn(len(c16FileNames))]
			if r.Intn(3) == 0 {
				f = []string{"a.mg", "b.mg", "c.mg", "t.mg", "ev.mg", "ev.mg", "dist.mg"}[r.Intn(7)] // frequently needed bases
			}
			if r.Intn(6) == 0 {
				f += "," + c16FileNames[r.Intn(len(c16FileNames))]
			}
			c.Cmds = append(c.Cmds, c16Cmd{Op: "load", Arg: f})
			if r.Intn(8) == 0 {
				c.Cmds = append(c.Cmds, c16Cmd{Op: "load", Arg: f}) // the same path set again, right away
			}
		case x < 75:
			c.Cmds = append(c.Cmds, c16Cmd{Op: "define", Arg: c16Clauses[r.Intn(len(c16Clauses))]})
		default:
			c.Cmds = append(c.Cmds, c16Cmd{Op: "pop"})
		}
	}
	return c
}

func (c16) Decode(raw json.RawMessage) (any, error) {
	var c c16Case
	err := json.Unmarshal(raw, &c)
	return c, err
}

var c16Root string
var c16Once sync.Once

func c16Setup() string {
	c16Once.Do(func() {
		dir, err := os.MkdirTemp("", "verif-c16-")
		if err != nil {
			panic(err)
		}
		for name, text := range c16Files {
			if err := os.WriteFile(filepath.Join(dir, name), []byte(text), 0o644); err != nil {
				panic(err)
			}
		}
		c16Root = dir
	})
	return c16Root
}

type c16Model struct {
	loaded      []string
	interactive string
}

func c16Fresh(m c16Model) (*interpreter.Interpreter, error) {
	in := interpreter.New(io.Discard, c16Setup(), nil)
	for _, ps := range m.loaded {
		if err := in.Load(ps); err != nil {
			return nil, fmt.Errorf("replaying load %s: %w", ps, err)
		}
	}
	if m.interactive != "" {
		if err := in.Define(m.interactive); err != nil {
			return nil, fmt.Errorf("replaying interactive definitions %q: %w", m.interactive, err)
		}
	}
	return in, nil
}

func c16Apply(in *interpreter.Interpreter, cmd c16Cmd) (err error, panicked string) {
	defer func() {
		if r := recover(); r != nil {
			panicked = fmt.Sprint(r)
		}
	}()
	switch cmd.Op {
	case "load":
		err = in.Load(cmd.Arg)
	case "define":
		err = in.Define(cmd.Arg)
	case "pop":
		in.Pop()
	}
	return
}

func c16Snapshot(in *interpreter.Interpreter) map[string]string {
	out := map[string]string{}
	for _, p := range c16Preds {
		q, err := in.ParseQuery(p)
		if err != nil {
			out[p] = "unknown predicate"
			continue
		}
		res, err := in.Query(q)
		if err != nil {
			out[p] = "query error: " + err.Error()
			continue
		}
		var ss []string
		for _, t := range res {
			switch x := t.(type) {
			case ast.TemporalAtom:
				ss = append(ss, x.String())
			default:
				ss = append(ss, t.String())
			}
		}
		sort.Strings(ss)
		out[p] = fmt.Sprintf("arity %d: ", q.Predicate.Arity) + strings.Join(ss, " ")
	}
	return out
}

func errClass(err error) string {
	switch {
	case err == nil:
		return "ok"
	case strings.Contains(err.Error(), "evaluation failed") || strings.Contains(err.Error(), "fact size limit"):
		return "evaluation-error"
	}
	return "rejected"
}

type c16Fail struct {
	step     int
	sig, msg string
}

func c16Exec(c c16Case, res *core.Result) *c16Fail {
	iut := interpreter.New(io.Discard, c16Setup(), nil)
	model := c16Model{}
	pushes := 0
	definedOK := false
	shapes := map[string]bool{}
	for step, cmd := range c.Cmds {
		// the same command on a fresh replay of the live fragments (for load/define: predicted status)
		pre := model
		if cmd.Op == "load" {
			pre.interactive = "" // load first discards the interactive fragment
		}
		fresh, ferr := c16Fresh(pre)
		if ferr != nil {
			return &c16Fail{step, "harness:replay-fails", fmt.Sprintf("step %d: fresh replay of the live fragments fails: %v", step, ferr)}
		}
		var wantErr error
		if cmd.Op != "pop" {
			if cmd.Op == "define" && pre.interactive != "" {
				// a define extends the buffer: on the fresh side that is one define of buffer+text
				fresh2, _ := c16Fresh(c16Model{loaded: pre.loaded})
				wantErr, _ = c16Apply(fresh2, c16Cmd{Op: "define", Arg: pre.interactive + cmd.Arg})
				fresh = fresh2
			} else {
				wantErr, _ = c16Apply(fresh, cmd)
			}
		}
		gotErr, panicked := c16Apply(iut, cmd)
		if panicked != "" {
			return &c16Fail{step, "panic:" + cmd.Op, fmt.Sprintf("step %d: %s %q panics: %s", step, cmd.Op, cmd.Arg, panicked)}
		}
		if errClass(gotErr) == "evaluation-error" || errClass(wantErr) == "evaluation-error" {
			if res != nil {
				res.Ob("histories_cut_at_evaluation_error", 1)
			}
			return nil
		}
		if cmd.Op != "pop" && (gotErr == nil) != (wantErr == nil) {
			sig := cmd.Op + ":accepted-only-by-fresh-interpreter"
			if gotErr == nil {
				sig = cmd.Op + ":rejected-only-by-fresh-interpreter"
			}
			return &c16Fail{step, sig, fmt.Sprintf("step %d: %s %q returns %v, but on a fresh interpreter holding the live fragments %v + %q it returns %v", step, cmd.Op, cmd.Arg, gotErr, pre.loaded, pre.interactive, wantErr)}
		}
		// update the model
		switch cmd.Op {
		case "load":
			model.interactive = ""
			if gotErr == nil {
				model.loaded = append(append([]string{}, model.loaded...), cmd.Arg)
				pushes++
			}
		case "define":
			if gotErr == nil {
				model.interactive += cmd.Arg
				pushes++
				definedOK = true
			} else if definedOK && res != nil {
				res.NonTrivial = true
				res.Ob("failed_define_after_successful_one", 1)
			}
		case "pop":
			if model.interactive != "" {
				model.interactive = ""
			} else if len(model.loaded) > 0 {
				model.loaded = append([]string{}, model.loaded[:len(model.loaded)-1]...)
			}
			if pushes >= 2 && res != nil {
				res.NonTrivial = true
				res.Ob("pops_after_2+_pushes", 1)
			}
		}
		shapes[fmt.Sprintf("%d/%v", len(model.loaded), model.interactive != "")] = true
		// compare visible state with a fresh replay
		ref, ferr := c16Fresh(model)
		if ferr != nil {
			return &c16Fail{step, "harness:replay-fails", fmt.Sprintf("step %d: fresh replay of %v + %q fails: %v", step, model.loaded, model.interactive, ferr)}
		}
		got, want := c16Snapshot(iut), c16Snapshot(ref)
		for _, p := range c16Preds {
			if got[p] != want[p] {
				kind := "query-differs"
				if got[p] == "unknown predicate" {
					kind = "predicate-forgotten"
				} else if want[p] == "unknown predicate" {
					kind = "predicate-lingers"
				}
				return &c16Fail{step, "after-" + cmd.Op + ":" + kind, fmt.Sprintf("step %d: after %s %q (status %v) predicate %s answers [%s]; a fresh interpreter holding the live fragments %v + %q answers [%s]", step, cmd.Op, cmd.Arg, gotErr, p, got[p], model.loaded, model.interactive, want[p])}
			}
		}
		if res != nil {
			res.Ob("commands_checked", 1)
			res.Ob("predicate_comparisons", len(c16Preds))
		}
	}
	if res != nil {
		res.Ob("stack_shapes_per_case_sum", len(shapes))
	}
	return nil
}

func (c16) Run(cs any) core.Result {
	c := cs.(c16Case)
	var res core.Result
	res.Key = core.HashKey(fmt.Sprint(c.Cmds))
	res.Evals = len(c.Cmds)
	f := c16Exec(c, &res)
	if f == nil {
		return res
	}
	sig := f.sig
	min := c
	min.Cmds = append([]c16Cmd{}, c.Cmds[:minInt(f.step+1, len(c.Cmds))]...)
	if core.ShrinkAllowed(sig) {
		min.Cmds = core.ShrinkSlice(min.Cmds, func(cmds []c16Cmd) bool {
			f2 := c16Exec(c16Case{Cmds: cmds}, nil)
			return f2 != nil && f2.sig == sig
		})
	}
	if f2 := c16Exec(min, nil); f2 != nil {
		f = f2
	}
	var sb strings.Builder
	for _, cmd := range min.Cmds {
		fmt.Fprintf(&sb, "  %s %s\n", cmd.Op, cmd.Arg)
	}
	raw, _ := json.Marshal(min)
	res.Violations = append(res.Violations, core.Violation{Sig: sig, Msg: f.msg + "\nminimal history:\n" + sb.String(), Witness: raw})
	return res
}
