package props

import (
	"encoding/json"
	"fmt"
	"math"
	"math/rand"
	"strings"

	"codeberg.org/TauCeti/mangle-go/ast"
	"codeberg.org/TauCeti/mangle-go/functional"

	"verif/internal/canon"
	"verif/internal/core"
	"verif/internal/gen"
)

// C08 — equality, hashing and printing of terms agree.

type c08Item struct {
	V     gen.Val `json:"v"`
	Route string  `json:"route"` // direct | expr
}

type c08Case struct {
	Mode  string    `json:"mode"`
	Items []c08Item `json:"items"` // 2 or 3 related terms
	Atom  bool      `json:"atom"`  // compare as atoms p(x, /k) too
}

type c08 struct{}

func init() { core.Register(c08{}) }

func (c08) ID() string { return "C08" }
func (c08) Cases(tier string) int {
	if tier == "thorough" {
		return 3000000
	}
	return 60000
}
func (c08) Describe() core.Info {
	return core.Info{
		Level:       "exploration",
		Rule:        "pairs and triples of *related* constants (and atoms over them): a term, an independently rebuilt copy (public constructors, or functional.EvalExpr of the constructor expression), a one-leaf mutation, the same leaves in another kind (1 / 1.0 / \"1\" / time 1 / duration 1, list vs pair nesting, map vs struct with the same entries), maps/structs with permuted entry order (keys include hash-equal distinct constants), and unrelated random terms. Checked: reflexivity, symmetry, transitivity on the triple, Equals => equal Hash and equal String, equal String => Equals, canonical-encoding equality <=> Equals (so the result does not lean on the library's own hash short-cuts). Non-trivial: nesting depth >= 2 or a cross-kind pair; distinct by canonical encoding of the tuple. Time and duration leaves are also mirrored across zero and across the second boundary; every case additionally compares a pair and a list cell, a map and a struct built over the very same argument objects (shared structure).",
		Assumptions: []string{"floats are finite, names come from the lexer's character set (the property's stated domain)", "map keys within one map are pairwise structurally distinct"},
	}
}

func valExpr(v gen.Val) gen.TermV {
	switch v.K {
	case "pair":
		return gen.FnT("fn:pair", valExpr(v.Kids[0]), valExpr(v.Kids[1]))
	case "list":
		args := make([]gen.TermV, len(v.Kids))
		for i, k := range v.Kids {
			args[i] = valExpr(k)
		}
		return gen.FnT("fn:list", args...)
	case "map", "struct":
		args := make([]gen.TermV, len(v.Kids))
		for i, k := range v.Kids {
			args[i] = valExpr(k)
		}
		return gen.FnT("fn:"+v.K, args...)
	}
	return gen.ConstT(v)
}

func (it c08Item) build() (ast.Constant, error) {
	if it.Route == "expr" {
		r, err := functional.EvalExpr(valExpr(it.V).Build(), nil)
		if err != nil {
			return ast.Constant{}, err
		}
		return r.(ast.Constant), nil
	}
	return it.V.Const(), nil
}

// Keys include distinct constants with equal Hash(): across kinds (1 / time 1 / duration 1 /
// float bits, /a vs "/a", [1] vs 65792) and within one compound shape (the pairing of
// component hashes shifts the first component left by the shape tag and drops its top
// bits: fn:pair(1,"x") ~ fn:pair(1+2^57,"x"), [1] ~ [1+2^56]).
var c08KeyPool = []gen.Val{gen.Num(1), gen.TimeV(1), gen.Dur(1), gen.Float(1.0), gen.Num(4607182418800017408), gen.ListV(gen.Num(1)), gen.Num(65792),
	gen.Name("/a"), gen.Str("a"), gen.Str("/a"), gen.Num(2), gen.Name("/b"), gen.BytesV([]byte("a")),
	gen.PairV(gen.Num(1), gen.Str("x")), gen.PairV(gen.Num(1+1<<57), gen.Str("x")), gen.ListV(gen.Num(1 + 1<<56)), gen.ListV(gen.Num(1), gen.Num(0)),
	gen.PairV(gen.Num(3), gen.Num(4)), gen.PairV(gen.Num(3+1<<57), gen.Num(4)), gen.ListV(gen.Num(2), gen.Num(5)), gen.ListV(gen.Num(2+1<<56), gen.Num(5))}

func mutateLeaf(r *rand.Rand, v gen.Val) gen.Val {
	if len(v.Kids) > 0 && r.Intn(4) > 0 {
		out := v
		out.Kids = append([]gen.Val{}, v.Kids...)
		i := r.Intn(len(out.Kids))
		out.Kids[i] = mutateLeaf(r, out.Kids[i])
		return out
	}
	switch v.K {
	case "num":
		return gen.Num(v.N + 1)
	case "float":
		f := math.Float64frombits(v.Bits)
		if f == 0 {
			return gen.Float(-f) // the other zero: a distinct constant (other bits, other hash, other print)
		}
		switch r.Intn(4) {
		case 0:
			return gen.Float(-f) // 0.0 and -0.0 are distinct constants
		case 1:
			if g := math.Float64frombits(v.Bits ^ 1); !math.IsNaN(g) && !math.IsInf(g, 0) {
				return gen.Float(g) // neighbouring float: needs all 17 digits
			}
		case 2:
			if g := float64(float32(f)); !math.IsNaN(g) && !math.IsInf(g, 0) {
				return gen.Float(g)
			}
		}
		return gen.Float(f + 1)
	case "str":
		if r.Intn(3) == 0 {
			// the string that spells out the escape sequences of v ("a<newline>b" -> a, backslash, n, b): the two
			// print differently only if the backslash itself is escaped
			if t := c08SpellEscapes(v.S); t != v.S {
				return gen.Str(t)
			}
		}
		return gen.Str(v.S + "x")
	case "bytes":
		return gen.BytesV(append(v.RawBytes(), 0))
	case "name":
		return gen.Name(v.S + "x")
	case "time":
		// the mirror image across the epoch, and the same sub-second part in the neighbouring second: distinct
		// instants that print alike if the printer mishandles the sign of the sub-second part
		switch x := r.Intn(4); {
		case x == 0 && v.N != 0 && v.N != math.MinInt64:
			return gen.TimeV(-v.N)
		case x == 1 && v.N%1_000_000_000 != 0 && v.N > math.MinInt64+2_000_000_000 && v.N < math.MaxInt64-2_000_000_000:
			return gen.TimeV(v.N - 2*(v.N%1_000_000_000))
		}
		return gen.TimeV(v.N + 1)
	case "dur":
		if r.Intn(4) == 0 && v.N != 0 && v.N != math.MinInt64 {
			return gen.Dur(-v.N)
		}
		return gen.Dur(v.N + 1)
	case "list":
		return gen.ListV(append(append([]gen.Val{}, v.Kids...), gen.Num(0))...)
	case "pair":
		return gen.PairV(v.Kids[1], v.Kids[0])
	case "map":
		return gen.MapV(append(append([]gen.Val{}, v.Kids...), gen.Name("/extra"), gen.Num(0))...)
	case "struct":
		return gen.StructV(append(append([]gen.Val{}, v.Kids...), gen.Name("/extra"), gen.Num(0))...)
	}
	return gen.Num(0)
}

func c08SpellEscapes(s string) string {
	var sb strings.Builder
	for _, ru := range s {
		switch {
		case ru == '\n':
			sb.WriteString(`\n`)
		case ru == '\t':
			sb.WriteString(`\t`)
		case ru == '\r':
			sb.WriteString(`\r`)
		case ru == '"':
			sb.WriteString(`\"`)
		case ru == '\'':
			sb.WriteString(`\'`)
		case ru == '\\':
			sb.WriteString(`\\`)
		case ru < 0x20 || ru == 0x7f || ru > 0x7e:
			fmt.Fprintf(&sb, `\u{%06x}`, ru)
		default:
			sb.WriteRune(ru)
		}
	}
	return sb.String()
}

func crossKind(r *rand.Rand, v gen.Val) gen.Val {
	switch v.K {
	case "num":
		switch r.Intn(5) {
		case 0:
			return gen.Float(float64(v.N))
		case 1:
			return gen.Str(fmt.Sprint(v.N))
		case 2:
			return gen.TimeV(v.N)
		case 3:
			return gen.Dur(v.N)
		}
		return gen.Num(int64(math.Float64bits(float64(v.N))))
	case "float":
		f := math.Float64frombits(v.Bits)
		if r.Intn(2) == 0 && f == math.Trunc(f) && math.Abs(f) < 1e18 {
			return gen.Num(int64(f))
		}
		return gen.Num(int64(v.Bits))
	case "str":
		if r.Intn(2) == 0 {
			return gen.BytesV([]byte(v.S))
		}
		if len(v.S) > 1 && v.S[0] == '/' {
			ok := true
			for _, c := range v.S[1:] {
				if !(c >= 'a' && c <= 'z') {
					ok = false
				}
			}
			if ok {
				return gen.Name(v.S)
			}
		}
		return gen.BytesV([]byte(v.S))
	case "name":
		return gen.Str(v.S)
	case "bytes":
		return gen.Str(string(v.RawBytes()))
	case "time":
		return gen.Dur(v.N)
	case "dur":
		return gen.TimeV(v.N)
	case "list":
		if len(v.Kids) == 2 {
			return gen.PairV(v.Kids[0], v.Kids[1])
		}
		if len(v.Kids) == 1 {
			return v.Kids[0]
		}
		return gen.PairV(gen.ListV(), gen.ListV())
	case "pair":
		return gen.ListV(v.Kids[0], v.Kids[1])
	case "map":
		return gen.Val{K: "struct", Kids: v.Kids}
	case "struct":
		return gen.Val{K: "map", Kids: v.Kids}
	}
	return v
}

func permuteEntries(r *rand.Rand, v gen.Val) gen.Val {
	out := v
	out.Kids = nil
	switch v.K {
	case "map", "struct":
		n := len(v.Kids) / 2
		for _, i := range r.Perm(n) {
			out.Kids = append(out.Kids, permuteEntries(r, v.Kids[2*i]), permuteEntries(r, v.Kids[2*i+1]))
		}
	default:
		for _, k := range v.Kids {
			out.Kids = append(out.Kids, permuteEntries(r, k))
		}
	}
	return out
}

func c08RandMap(r *rand.Rand, kind string) gen.Val {
	n := 2 + r.Intn(4)
	v := gen.Val{K: kind}
	if kind == "struct" {
		labels := []string{"/a", "/b", "/c", "/d", "/e", "/f"}
		for _, i := range r.Perm(len(labels))[:n] {
			v.Kids = append(v.Kids, gen.Name(labels[i]), gen.RandVal(r, gen.ConstOpts{MaxDepth: 2}, 1))
		}
		return v
	}
	for _, i := range r.Perm(len(c08KeyPool))[:n] {
		v.Kids = append(v.Kids, c08KeyPool[i], gen.RandVal(r, gen.ConstOpts{MaxDepth: 2}, 1))
	}
	return v
}

func (c08) Gen(r *rand.Rand, tier string, i int) any {
	o := gen.ConstOpts{MaxDepth: 3}
	route := func() string {
		if r.Intn(2) == 0 {
			return "expr"
		}
		return "direct"
	}
	a := gen.RandVal(r, o, 0)
	if r.Intn(3) == 0 {
		a = gen.ListV(gen.RandVal(r, o, 1), gen.RandVal(r, o, 1))
	}
	if r.Intn(8) == 0 {
		a = c08KeyPool[r.Intn(len(c08KeyPool))]
	}
	c := c08Case{Atom: r.Intn(3) == 0}
	switch m := i % 6; m {
	case 0:
		c.Mode = "rebuilt"
		c.Items = []c08Item{{a, "direct"}, {a, route()}}
	case 1:
		c.Mode = "mutated"
		c.Items = []c08Item{{a, route()}, {mutateLeaf(r, a), route()}}
	case 2:
		c.Mode = "cross-kind"
		// apply crossKind at a random position
		var at func(v gen.Val) gen.Val
		at = func(v gen.Val) gen.Val {
			if len(v.Kids) > 0 && r.Intn(2) == 0 {
				out := v
				out.Kids = append([]gen.Val{}, v.Kids...)
				k := r.Intn(len(out.Kids))
				if (v.K == "map" || v.K == "struct") && k%2 == 0 && v.K == "struct" {
					k++ // keep struct labels names
				}
				out.Kids[k] = at(out.Kids[k])
				return out
			}
			return crossKind(r, v)
		}
		c.Items = []c08Item{{a, route()}, {at(a), route()}}
	case 3:
		c.Mode = "random"
		c.Items = []c08Item{{a, route()}, {gen.RandVal(r, o, 0), route()}}
	case 4:
		c.Mode = "permuted"
		kind := "map"
		if r.Intn(3) == 0 {
			kind = "struct"
		}
		m := c08RandMap(r, kind)
		if r.Intn(3) == 0 {
			m = gen.ListV(m, gen.PairV(c08RandMap(r, "map"), gen.Num(1)))
		}
		c.Items = []c08Item{{m, route()}, {permuteEntries(r, m), route()}, {permuteEntries(r, m), route()}}
	default:
		c.Mode = "triple"
		b := a
		if r.Intn(2) == 0 {
			b = mutateLeaf(r, a)
		}
		d := a
		switch r.Intn(3) {
		case 0:
			d = crossKind(r, a)
		case 1:
			d = mutateLeaf(r, a)
		}
		c.Items = []c08Item{{a, route()}, {b, route()}, {d, route()}}
	}
	return c
}

func (c08) Decode(raw json.RawMessage) (any, error) {
	var c c08Case
	err := json.Unmarshal(raw, &c)
	return c, err
}

type c08Term struct {
	term  ast.Term
	hash  uint64
	str   string
	canon string
	desc  string
}

func (c08) Run(cs any) core.Result {
	c := cs.(c08Case)
	var res core.Result
	var ts []c08Term
	var ks []ast.Constant
	depth := 0
	for _, it := range c.Items {
		k, err := it.build()
		if err != nil {
			res.Violate("build-error", "constructor expression for %v failed: %v", it.V, err)
			return res
		}
		if d := it.V.Depth(); d > depth {
			depth = d
		}
		ks = append(ks, k)
		if c.Atom {
			a := ast.NewAtom("p", k, ast.TrueConstant)
			ts = append(ts, c08Term{a, a.Hash(), a.String(), canon.Atom(a), fmt.Sprintf("atom p(%s) via %s", canon.Const(k), it.Route)})
		} else {
			ts = append(ts, c08Term{k, k.Hash(), k.String(), canon.Const(k), fmt.Sprintf("%s via %s", canon.Const(k), it.Route)})
		}
	}
	// constants of different shapes built over the very same argument objects (a pair and a list cell, a map and a
	// struct): sharing structure must not make them equal
	if len(ks) >= 2 {
		h, t, m := ks[0], ks[1], ks[1]
		if t.Type != ast.ListShape {
			t = ast.ListNil
		}
		label, _ := ast.Name("/shared")
		shared := []ast.Constant{ast.Pair(&h, &t), ast.ListCons(&h, &t), ast.MapCons(&label, &m, &ast.MapNil), ast.StructCons(&label, &m, &ast.StructNil)}
		for _, k := range shared {
			if c.Atom {
				a := ast.NewAtom("p", k, ast.TrueConstant)
				ts = append(ts, c08Term{a, a.Hash(), a.String(), canon.Atom(a), fmt.Sprintf("atom p(%s) sharing its arguments", canon.Const(k))})
			} else {
				ts = append(ts, c08Term{k, k.Hash(), k.String(), canon.Const(k), fmt.Sprintf("%s sharing its arguments", canon.Const(k))})
			}
		}
	}
	key := c.Mode
	for _, t := range ts {
		key += "|" + t.canon
	}
	res.Key = core.HashKey(key, fmt.Sprint(c.Atom))
	res.NonTrivial = depth >= 2 || c.Mode == "cross-kind" || c.Mode == "permuted"
	res.Ob("mode:"+c.Mode, 1)
	eq := func(i, j int) bool { return ts[i].term.Equals(ts[j].term) }
	kindOf := func() string {
		if c.Atom {
			return "atom"
		}
		return "const"
	}
	n := len(ts)
	for i := 0; i < n; i++ {
		if !eq(i, i) {
			res.Violate(kindOf()+":not-reflexive", "%s is not Equals to itself", ts[i].desc)
			return res
		}
		for j := 0; j < n; j++ {
			if i == j {
				continue
			}
			e := eq(i, j)
			if e != eq(j, i) {
				res.Violate(kindOf()+":asymmetric", "Equals(%s, %s) = %v but the converse is %v", ts[i].desc, ts[j].desc, e, !e)
				return res
			}
			if i > j {
				continue
			}
			same := ts[i].canon == ts[j].canon
			if same {
				res.Ob("equal_pairs", 1)
			} else {
				res.Ob("unequal_pairs", 1)
			}
			if ts[i].hash == ts[j].hash && !same {
				res.Ob("hash_equal_distinct_pairs", 1)
			}
			if same && !e {
				sig := kindOf() + ":structurally-equal-not-Equals"
				if c.Mode == "permuted" {
					sig = kindOf() + ":map-order-dependent"
					if c08HasHashEqualKeys(c.Items[0].V) {
						sig += ":hash-equal-keys"
					}
				}
				res.Violate(sig, "structurally equal terms are not Equals: %s [%s] vs %s [%s]", ts[i].desc, ts[i].str, ts[j].desc, ts[j].str)
				return res
			}
			if !same && e {
				res.Violate(kindOf()+":Equals-conflates-distinct", "Equals holds for structurally different terms: %s vs %s", ts[i].desc, ts[j].desc)
				return res
			}
			if e && ts[i].hash != ts[j].hash {
				res.Violate(kindOf()+":equal-different-hash", "Equals terms hash differently: %s (%d) vs %s (%d)", ts[i].desc, ts[i].hash, ts[j].desc, ts[j].hash)
				return res
			}
			if e && ts[i].str != ts[j].str {
				res.Violate(kindOf()+":equal-different-string", "Equals terms print differently: %q vs %q", ts[i].str, ts[j].str)
				return res
			}
			if !e && ts[i].str == ts[j].str {
				res.Violate(kindOf()+":unequal-same-string:"+c08PrintClash(c.Items[i].V, c.Items[j].V), "distinct terms print identically as %q: %s vs %s", ts[i].str, ts[i].desc, ts[j].desc)
				return res
			}
		}
	}
	if n == 3 {
		for _, p := range [][3]int{{0, 1, 2}, {0, 2, 1}, {1, 0, 2}} {
			if eq(p[0], p[1]) && eq(p[1], p[2]) && !eq(p[0], p[2]) {
				res.Violate(kindOf()+":intransitive", "Equals is not transitive on %s, %s, %s", ts[p[0]].desc, ts[p[1]].desc, ts[p[2]].desc)
				return res
			}
		}
	}
	return res
}

func c08HasHashEqualKeys(v gen.Val) bool {
	found := false
	v.Walk(func(x gen.Val) {
		if x.K != "map" && x.K != "struct" {
			return
		}
		seen := map[uint64]string{}
		for i := 0; i+1 < len(x.Kids); i += 2 {
			k := x.Kids[i].Const()
			if prev, ok := seen[k.Hash()]; ok && prev != canon.Const(k) {
				found = true
			}
			seen[k.Hash()] = canon.Const(k)
		}
	})
	return found
}

// c08PrintClash names the leaf pair that prints identically.
func c08PrintClash(a, b gen.Val) string {
	if a.K != b.K || len(a.Kids) != len(b.Kids) || len(a.Kids) == 0 {
		if a.K > b.K {
			a, b = b, a
		}
		return a.K + "-vs-" + b.K
	}
	for i := range a.Kids {
		if canon.Const(a.Kids[i].Const()) != canon.Const(b.Kids[i].Const()) {
			return c08PrintClash(a.Kids[i], b.Kids[i])
		}
	}
	return a.K
}
