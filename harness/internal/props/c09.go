package props

import (
	"encoding/json"
	"fmt"
	"math"
	"math/rand"
	"strings"
	"time"

	"codeberg.org/TauCeti/mangle-go/ast"
	"codeberg.org/TauCeti/mangle-go/functional"
	"codeberg.org/TauCeti/mangle-go/parse"

	"verif/internal/canon"
	"verif/internal/core"
	"verif/internal/gen"
)

// C09 — printing then parsing returns the same term, atom or clause.

type c09Case struct {
	Kind   string       `json:"kind"` // const atom type clause
	Val    *gen.Val     `json:"val,omitempty"`
	Atom   *gen.AtomV   `json:"atom,omitempty"`
	Term   *gen.TermV   `json:"term,omitempty"`
	Clause *gen.ClauseV `json:"clause,omitempty"`
	// TZ != 0: the library's default timezone (ast.SetDefaultTimezone, used by the Date/DateTime
	// helper constructors) is set to a fixed zone with this offset while the case runs; printed
	// timestamps are UTC by definition, so the configuration must not change any round trip.
	TZ int `json:"tz,omitempty"`
}

type c09 struct{}

func init() { core.Register(c09{}) }

func (c09) ID() string { return "C09" }
func (c09) Cases(tier string) int {
	if tier == "thorough" {
		return 3000000
	}
	return 60000
}
func (c09) Describe() core.Info {
	return core.Info{
		Level: "exploration",
		Rule: "cases are one of: a constant (all kinds, boundary ints, finite floats incl. integral/huge/tiny/-0, strings and bytes with every escape class, control characters, non-ASCII and astral code points, times, durations, nested to depth 3), a ground atom, a type expression, or a random clause AST (negation, (in)equalities, comparisons, built-ins, let/do transforms incl. chains, head and body annotations, the four temporal operators with whole-millisecond duration bounds, timestamps with and without sub-second digits). Each is printed with String(), parsed back with parse.BaseTerm/Atom/Clause and compared structurally (constants via canonical encoding after functional.EvalExpr). Non-trivial: contains an escape-requiring character, a float, a temporal element or nesting >= 2; distinct by content hash.",
		Assumptions: []string{"duration bounds below 1ms have no source form in the grammar and are not generated", "names are drawn from the lexer's CONSTANT character set", "map keys within one map are distinct"},
	}
}

func (c09) Gen(r *rand.Rand, tier string, i int) any {
	o := gen.ConstOpts{MaxDepth: 3}
	switch i % 6 {
	case 0, 1, 2:
		v := gen.RandVal(r, o, 0)
		if r.Intn(3) == 0 { // force structure
			o2 := o
			v = gen.ListV(gen.RandVal(r, o2, 1), gen.RandVal(r, o2, 1))
			if r.Intn(2) == 0 {
				v = gen.MapV(gen.RandVal(r, o2, 3), v)
			}
		}
		return c09Case{Kind: "const", Val: &v}
	case 3:
		n := r.Intn(4)
		a := gen.AtomV{P: []string{"p", "foo", "a.b", "q1"}[r.Intn(4)]}
		for k := 0; k < n; k++ {
			a.Args = append(a.Args, gen.RandVal(r, o, 1))
		}
		return c09Case{Kind: "atom", Atom: &a}
	case 4:
		t := gen.RandTypeV(r, 0)
		return c09Case{Kind: "type", Term: &t}
	default:
		c := gen.RandClauseV(r, gen.ConstOpts{MaxDepth: 2})
		cs := c09Case{Kind: "clause", Clause: &c}
		if r.Intn(4) == 0 {
			cs.TZ = []int{19800, -28800, 3600, 45900}[r.Intn(4)]
		}
		return cs
	}
}

func (c09) Decode(raw json.RawMessage) (any, error) {
	var c c09Case
	err := json.Unmarshal(raw, &c)
	return c, err
}

// roundTripConst returns "" when v survives print->parse->eval.
func roundTripConst(v gen.Val) (mode string, detail string) {
	c := v.Const()
	text := c.String()
	t, err := parse.BaseTerm(text)
	if err != nil {
		return "parse-error", fmt.Sprintf("%q does not parse: %v", text, err)
	}
	back, err := functional.EvalExpr(t, nil)
	if err != nil {
		return "eval-error", fmt.Sprintf("%q parses to %v which does not evaluate: %v", text, t, err)
	}
	bc, ok := back.(ast.Constant)
	if !ok {
		return "not-constant", fmt.Sprintf("%q parses to non-constant %v", text, back)
	}
	if canon.Const(bc) != canon.Const(c) {
		return "mismatch", fmt.Sprintf("printed %q, got back %s instead of %s", text, canon.Const(bc), canon.Const(c))
	}
	return "", ""
}

// classify describes the leaf that fails, for signatures.
func c09LeafClass(v gen.Val) string {
	switch v.K {
	case "str":
		switch {
		case strings.Contains(v.S, "\r"):
			return "str:carriage-return"
		}
		return "str"
	case "bytes":
		return "bytes"
	case "float":
		f := math.Float64frombits(v.Bits)
		switch {
		case f == math.Trunc(f) && math.Abs(f) < 9.3e18:
			return "float:integral"
		case f == math.Trunc(f):
			return "float:integral-huge"
		}
		return "float"
	case "list", "map", "struct":
		if len(v.Kids) > 0 {
			first := v.Kids[0]
			if (first.K == "num" && first.N < 0) || (first.K == "float" && math.Signbit(math.Float64frombits(first.Bits))) {
				return v.K + ":first-element-negative"
			}
		}
		return v.K
	}
	return v.K
}

func c09ShrinkVal(v gen.Val) gen.Val {
	// descend while some child still fails by itself
	for {
		progressed := false
		for _, k := range v.Kids {
			if m, _ := roundTripConst(k); m != "" {
				v = k
				progressed = true
				break
			}
		}
		if !progressed {
			break
		}
	}
	// drop children of containers while still failing
	if len(v.Kids) > 0 {
		step := 1
		if v.K == "map" || v.K == "struct" {
			step = 2
		}
		if v.K != "pair" {
			for i := len(v.Kids) - step; i >= 0; i -= step {
				t := v
				t.Kids = append(append([]gen.Val{}, v.Kids[:i]...), v.Kids[i+step:]...)
				if m, _ := roundTripConst(t); m != "" {
					v = t
				}
			}
		}
	}
	if v.K == "str" && len(v.S) > 1 {
		for _, ru := range v.S {
			t := gen.Str(string(ru))
			if m, _ := roundTripConst(t); m != "" {
				return t
			}
		}
	}
	return v
}

func (c09) Run(cs any) core.Result {
	c := cs.(c09Case)
	var res core.Result
	raw, _ := json.Marshal(c)
	res.Key = core.HashKey(string(raw))
	res.Ob("kind:"+c.Kind, 1)
	if c.TZ != 0 {
		ast.SetDefaultTimezone(time.FixedZone("fixed", c.TZ))
		defer ast.SetDefaultTimezone(time.UTC)
		res.Ob("cases_under_non_utc_default_timezone", 1)
	}
	switch c.Kind {
	case "const":
		v := *c.Val
		nt := v.Depth() >= 2
		v.Walk(func(x gen.Val) {
			switch x.K {
			case "float", "time", "dur", "bytes":
				nt = true
			case "str":
				if strings.ContainsAny(x.S, "\"\\\n\r\t'") || !isPrintableASCII(x.S) {
					nt = true
				}
			}
		})
		res.NonTrivial = nt
		if m, d := roundTripConst(v); m != "" {
			min := c09ShrinkVal(v)
			m2, d2 := roundTripConst(min)
			if m2 == "" {
				min, m2, d2 = v, m, d
			}
			w, _ := json.Marshal(c09Case{Kind: "const", Val: &min})
			res.Violations = append(res.Violations, core.Violation{Sig: "const:" + c09LeafClass(min) + ":" + m2, Msg: d2, Witness: w})
		}
	case "atom":
		a := c.Atom.Atom()
		res.NonTrivial = len(a.Args) > 0
		text := a.String()
		back, err := parse.Atom(text)
		if err != nil {
			// find a failing argument
			for _, arg := range c.Atom.Args {
				if m, d := roundTripConst(arg); m != "" {
					min := c09ShrinkVal(arg)
					m2, d2 := roundTripConst(min)
					if m2 == "" {
						min, m2, d2 = arg, m, d
					}
					w, _ := json.Marshal(c09Case{Kind: "const", Val: &min})
					res.Violations = append(res.Violations, core.Violation{Sig: "const:" + c09LeafClass(min) + ":" + m2, Msg: d2 + " (inside atom " + text + ")", Witness: w})
					return res
				}
			}
			res.Violate("atom:parse-error", "atom %q does not parse: %v", text, err)
			return res
		}
		ev, err := functional.EvalAtom(back, nil)
		if err != nil {
			res.Violate("atom:eval-error", "atom %q parses to %v which does not evaluate: %v", text, back, err)
			return res
		}
		if canon.Atom(ev) != canon.Atom(a) {
			for _, arg := range c.Atom.Args {
				if m, d := roundTripConst(arg); m != "" {
					min := c09ShrinkVal(arg)
					m2, d2 := roundTripConst(min)
					if m2 == "" {
						min, m2, d2 = arg, m, d
					}
					w, _ := json.Marshal(c09Case{Kind: "const", Val: &min})
					res.Violations = append(res.Violations, core.Violation{Sig: "const:" + c09LeafClass(min) + ":" + m2, Msg: d2 + " (inside atom " + text + ")", Witness: w})
					return res
				}
			}
			res.Violate("atom:mismatch", "atom printed %q came back as %s instead of %s", text, canon.Atom(ev), canon.Atom(a))
		}
	case "type":
		t := c.Term.Build()
		res.NonTrivial = true
		text := t.String()
		back, err := parse.BaseTerm(text)
		if err != nil {
			res.Violate("type:parse-error", "type expression %q does not parse: %v", text, err)
			return res
		}
		if err := cmpTypeExpr(t, back); err != nil {
			res.Violate("type:mismatch", "type expression %q came back different: %v", text, err)
		}
	case "clause":
		cl := c.Clause.Build()
		res.NonTrivial = len(cl.Premises) >= 2 || cl.Transform != nil || cl.HeadTime != nil
		text := cl.String()
		back, err := parse.Clause(text)
		if err != nil {
			sig, w := c09DiagnoseClause(*c.Clause)
			res.Violations = append(res.Violations, core.Violation{Sig: "clause:" + sig + ":parse-error", Msg: fmt.Sprintf("clause %q does not parse: %v", text, err), Witness: w})
			return res
		}
		if err := cmpClause(cl, back); err != nil {
			sig, w := c09DiagnoseClause(*c.Clause)
			res.Violations = append(res.Violations, core.Violation{Sig: "clause:" + sig + ":mismatch", Msg: fmt.Sprintf("clause %q came back different: %v", text, err), Witness: w})
		}
	}
	return res
}

func isPrintableASCII(s string) bool {
	for i := 0; i < len(s); i++ {
		if s[i] < 0x20 || s[i] > 0x7e {
			return false
		}
	}
	return true
}

// cmpTypeExpr compares type expressions by function name and arguments (arity
// fields differ legitimately between the two concrete syntaxes).
func cmpTypeExpr(a, b ast.BaseTerm) error {
	switch x := a.(type) {
	case ast.Constant:
		y, ok := b.(ast.Constant)
		if !ok || canon.Const(x) != canon.Const(y) {
			return fmt.Errorf("%v vs %v", a, b)
		}
		return nil
	case ast.Variable:
		y, ok := b.(ast.Variable)
		if !ok || x.Symbol != y.Symbol {
			return fmt.Errorf("%v vs %v", a, b)
		}
		return nil
	case ast.ApplyFn:
		y, ok := b.(ast.ApplyFn)
		if !ok || x.Function.Symbol != y.Function.Symbol || len(x.Args) != len(y.Args) {
			return fmt.Errorf("%v vs %v", a, b)
		}
		for i := range x.Args {
			if err := cmpTypeExpr(x.Args[i], y.Args[i]); err != nil {
				return err
			}
		}
		return nil
	}
	return fmt.Errorf("unexpected %T", a)
}

func c09ClauseFails(c gen.ClauseV) bool {
	defer func() { recover() }()
	cl := c.Build()
	back, err := parse.Clause(cl.String())
	if err != nil {
		return true
	}
	return cmpClause(cl, back) != nil
}

// c09DiagnoseClause minimises a failing clause and names the failing element.
func c09DiagnoseClause(c gen.ClauseV) (string, json.RawMessage) {
	min := c
	// drop transforms one by one
	for len(min.Transforms) > 0 {
		t := min
		t.Transforms = min.Transforms[:len(min.Transforms)-1]
		if !c09ClauseFails(t) {
			break
		}
		min = t
	}
	if min.HeadTime != nil {
		t := min
		t.HeadTime = nil
		if c09ClauseFails(t) {
			min = t
		}
	}
	if len(min.Body) > 1 {
		min.Body = core.ShrinkSlice(min.Body, func(b []gen.LitV) bool {
			if len(b) == 0 {
				return false
			}
			t := min
			t.Body = b
			return c09ClauseFails(t)
		})
	}
	// simplify head args
	for i := len(min.Head.Args) - 1; i >= 0; i-- {
		t := min
		t.Head.Args = append(append([]gen.TermV{}, min.Head.Args[:i]...), min.Head.Args[i+1:]...)
		if c09ClauseFails(t) {
			min = t
		}
	}
	w, _ := json.Marshal(c09Case{Kind: "clause", Clause: &min})
	// name the element
	sig := "other"
	constFails := func(ts []gen.TermV) string {
		var found string
		var walk func(t gen.TermV)
		walk = func(t gen.TermV) {
			if t.K == "const" && found == "" {
				if m, _ := roundTripConst(*t.Val); m != "" {
					found = c09LeafClass(c09ShrinkVal(*t.Val))
				}
			}
			for _, a := range t.Args {
				walk(a)
			}
		}
		for _, t := range ts {
			walk(t)
		}
		return found
	}
	var terms []gen.TermV
	terms = append(terms, min.Head.Args...)
	for _, l := range min.Body {
		terms = append(terms, l.Args...)
		if l.L != nil {
			terms = append(terms, *l.L, *l.R)
		}
	}
	for _, tr := range min.Transforms {
		for _, s := range tr {
			terms = append(terms, s.Fn)
		}
	}
	if f := constFails(terms); f != "" {
		return "const:" + f, w
	}
	switch {
	case len(min.Transforms) >= 2:
		sig = "chained-transforms"
	case len(min.Transforms) == 1:
		sig = "transform"
	case min.HeadTime != nil:
		sig = "head-annotation:" + ivClass(*min.HeadTime)
	default:
		for _, l := range min.Body {
			if l.K == "temporal" {
				if l.Op != nil {
					sig = "operator-bounds:" + ivClass(l.Op.Iv)
				} else if l.Iv != nil {
					sig = "body-annotation:" + ivClass(*l.Iv)
				}
			}
		}
	}
	return sig, w
}

func ivClass(iv gen.IvV) string {
	cl := func(b gen.BoundV) string {
		switch b.K {
		case "ts":
			if b.T%1_000_000_000 != 0 {
				return "subsecond-timestamp"
			}
			return "timestamp"
		case "dur":
			return "duration"
		}
		return b.K
	}
	a, b := cl(iv.S), cl(iv.E)
	for _, want := range []string{"duration", "subsecond-timestamp"} {
		if a == want || b == want {
			return want
		}
	}
	return a + "," + b
}
