package props

import (
	"encoding/json"
	"fmt"
	"math/rand"
	"sort"
	"strings"

	"codeberg.org/TauCeti/mangle-go/analysis"
	"codeberg.org/TauCeti/mangle-go/ast"
	"codeberg.org/TauCeti/mangle-go/builtin"
	"codeberg.org/TauCeti/mangle-go/engine"
	"codeberg.org/TauCeti/mangle-go/factstore"
	"codeberg.org/TauCeti/mangle-go/parse"
	"codeberg.org/TauCeti/mangle-go/unionfind"

	"verif/internal/canon"
	"verif/internal/core"
	"verif/internal/gen"
)

// C14 — temporal operators and annotations mean what the documentation says.

type c14Fact struct {
	V    int `json:"v"`
	A, B int // hours relative to the evaluation time, closed interval
}

type c14Case struct {
	Shape     string    `json:"shape"`
	Facts     []c14Fact `json:"facts"`
	Es        []int     `json:"es"`        // e(v) facts
	Op        int       `json:"op"`        // operator type
	WA, WB    int       // window [WA h, WB h]
	NowBound  bool      `json:"nowBound"`  // write the zero bound as 'now'
	Coalesce  bool      `json:"coalesce"`  // facts preloaded (possibly overlapping) and coalesced, instead of clauses
	CA, CB    int       // constant annotation bounds (hours)
	RelAs     string    `json:"relAs"`     // relations: number | time
	ViaParser bool      `json:"viaParser"` // submit the program as text
}

type c14 struct{}

func init() { core.Register(c14{}) }

func (c14) ID() string { return "C14" }
func (c14) Cases(tier string) int {
	if tier == "thorough" {
		return 1000000
	}
	return 60000
}
func (c14) Describe() core.Info {
	return core.Info{
		Level: "exploration",
		Rule: "one- and two-rule temporal programs over base facts t0(v)@[a h, b h] on a whole-hour timeline around a fixed evaluation time; base facts are either written as pairwise separated intervals or preloaded with overlaps and coalesced by the store. Shapes: each of the four operators with windows [a h, b h], 0 <= a <= b <= 12 (zero-length windows, windows ending on interval end points, 'now' bounds); variable annotations @[S,E] and @[_,E]; a diamond over a literal that also carries @[S,E] (one solution per stored interval that meets the window); constant annotations (holds throughout); head annotations with variables, constants and 'now' (start > end predicted as an error); an operator over a derived temporal predicate. Oracle: pointwise semantics by interval arithmetic on the normalised union of the model's intervals. Case 0 additionally checks the nine interval-relation predicates exhaustively on all pairs of intervals of a 6-point timeline (21x21x9 decisions) against their closed-interval definitions and converse/symmetry laws, with intervals given as pairs of numbers and as pairs of time instants (the declared argument type). Non-trivial: window touches an interval end point or spans two stored intervals; distinct by case content. The operator-over-annotated-literal shape uses all four operators (boxes: one solution per stored interval that covers the window).",
		Assumptions: []string{"windows with a > b, the point shorthand p(X)@[T] against non-point intervals, and annotations over already bound variables are executed nowhere (the documentation does not define them)"},
	}
}

func (c14) Gen(r *rand.Rand, tier string, i int) any {
	if i == 0 {
		return c14Case{Shape: "relations", RelAs: "number"}
	}
	if i == 1 {
		return c14Case{Shape: "relations", RelAs: "time"}
	}
	c := c14Case{Shape: []string{"operator", "operator", "operator", "enumerate", "enumerate-end", "const-annotation", "head-copy", "head-const", "head-now", "derived-operator", "operator-enumerate"}[r.Intn(11)]}
	c.Op = r.Intn(4)
	if c.Shape == "operator-enumerate" {
		// diamonds: every stored interval that meets the window is one solution; boxes: every stored interval that
		// covers the window
		c.Op = r.Intn(4)
	}
	c.WA = r.Intn(9)
	c.WB = c.WA + r.Intn(13-c.WA)
	if r.Intn(5) == 0 {
		c.WB = c.WA
	}
	c.NowBound = c.WA == 0 && r.Intn(3) == 0
	c.Coalesce = r.Intn(3) == 0
	c.ViaParser = r.Intn(3) == 0 && !c.Coalesce
	c.CA = r.Intn(21) - 10
	c.CB = c.CA + r.Intn(6)
	nf := 1 + r.Intn(7)
	for k := 0; k < nf; k++ {
		a := r.Intn(27) - 13
		b := a + r.Intn(8)
		if r.Intn(5) == 0 {
			b = a
		}
		// bias interval ends onto window ends
		if r.Intn(3) == 0 {
			sign := 1
			if c.Op <= 1 {
				sign = -1
			}
			ends := []int{sign * c.WA, sign * c.WB}
			if r.Intn(2) == 0 {
				a = ends[r.Intn(2)]
				b = a + r.Intn(6)
			} else {
				b = ends[r.Intn(2)]
				a = b - r.Intn(6)
			}
		}
		c.Facts = append(c.Facts, c14Fact{V: r.Intn(3), A: a, B: b})
	}
	for v := 0; v < 3; v++ {
		if r.Intn(3) > 0 {
			c.Es = append(c.Es, v)
		}
	}
	return c
}

func (c14) Decode(raw json.RawMessage) (any, error) {
	var c c14Case
	err := json.Unmarshal(raw, &c)
	return c, err
}

func hts(h int) int64 { return gen.EvalTimeNanos + int64(h)*gen.Hour }

// model: per value the normalised union of intervals (in nanoseconds)
func c14Model(c c14Case) map[int][]ivl {
	raw := map[int][]ivl{}
	for _, f := range c.Facts {
		raw[f.V] = append(raw[f.V], ivl{hts(f.A), hts(f.B)})
	}
	out := map[int][]ivl{}
	for v, xs := range raw {
		out[v] = normalise(xs)
	}
	return out
}

// separated reports whether the facts as written are already coalesced (pairwise neither overlapping nor adjacent, no duplicates).
func c14Separated(c c14Case) bool {
	n := 0
	for _, xs := range c14Model(c) {
		n += len(xs)
	}
	return n == len(c.Facts)
}

func c14Window(c c14Case) ivl {
	if c.Op <= 1 { // past
		return ivl{hts(-c.WB), hts(-c.WA)}
	}
	return ivl{hts(c.WA), hts(c.WB)}
}

type c14Expect struct {
	plain    map[string]string // canonical key -> display
	temporal map[string]string
	wantErr  bool
}

func numAtom(p string, args ...ast.BaseTerm) ast.Atom { return ast.NewAtom(p, args...) }

func c14Expected(c c14Case) c14Expect {
	e := c14Expect{plain: map[string]string{}, temporal: map[string]string{}}
	m := c14Model(c)
	addP := func(a ast.Atom) { e.plain[canon.Atom(a)] = a.String() }
	addT := func(a ast.Atom, s, en int64) {
		iv := ast.Interval{Start: ast.TemporalBound{Type: ast.TimestampBound, Timestamp: s}, End: ast.TemporalBound{Type: ast.TimestampBound, Timestamp: en}}
		e.temporal[canon.Atom(a)+c13IvKey(iv)] = a.String() + c13IvKey(iv)
	}
	hasE := map[int]bool{}
	for _, v := range c.Es {
		hasE[v] = true
		addP(numAtom("e", ast.Number(int64(v))))
	}
	for v, xs := range m {
		for _, x := range xs {
			addT(numAtom("t0", ast.Number(int64(v))), x.s, x.e)
		}
	}
	w := c14Window(c)
	holds := func(xs []ivl) bool {
		for _, x := range xs {
			if c.Op == 0 || c.Op == 2 { // diamond: some instant of the window
				if x.s <= w.e && w.s <= x.e {
					return true
				}
			} else if x.s <= w.s && w.e <= x.e { // box: throughout
				return true
			}
		}
		return false
	}
	switch c.Shape {
	case "operator":
		for v, xs := range m {
			if holds(xs) {
				addP(numAtom("r", ast.Number(int64(v))))
			}
		}
	case "derived-operator":
		for v, xs := range m {
			if !hasE[v] {
				continue
			}
			for _, x := range xs {
				addT(numAtom("d", ast.Number(int64(v))), x.s, x.e)
			}
			if holds(xs) {
				addP(numAtom("r", ast.Number(int64(v))))
			}
		}
	case "enumerate":
		for v, xs := range m {
			for _, x := range xs {
				addP(numAtom("r", ast.Number(int64(v)), ast.Time(x.s), ast.Time(x.e)))
			}
		}
	case "operator-enumerate":
		// a diamond over a literal that also carries an annotation with variables: the annotation enumerates the
		// stored intervals, the operator keeps those that hold at some instant of the window
		for v, xs := range m {
			for _, x := range xs {
				if holds([]ivl{x}) {
					addP(numAtom("r", ast.Number(int64(v)), ast.Time(x.s), ast.Time(x.e)))
				}
			}
		}
	case "enumerate-end":
		for v, xs := range m {
			for _, x := range xs {
				addP(numAtom("r", ast.Number(int64(v)), ast.Time(x.e)))
			}
		}
	case "const-annotation":
		q := ivl{hts(c.CA), hts(c.CB)}
		for v, xs := range m {
			for _, x := range xs {
				if x.s <= q.s && q.e <= x.e {
					addP(numAtom("r", ast.Number(int64(v))))
				}
			}
		}
	case "head-copy":
		for v, xs := range m {
			for _, x := range xs {
				addT(numAtom("h", ast.Number(int64(v))), x.s, x.e)
			}
		}
	case "head-const":
		for _, v := range c.Es {
			addT(numAtom("h", ast.Number(int64(v))), hts(c.CA), hts(c.CB))
		}
	case "head-now":
		for v, xs := range m {
			for _, x := range xs {
				if x.s > hts(0) {
					e.wantErr = true // resolved start > end: documented store error
				}
				addT(numAtom("h", ast.Number(int64(v))), x.s, hts(0))
			}
		}
	}
	return e
}

func c14Rules(c c14Case) []gen.ClauseV {
	x := gen.VarT("X")
	t0 := func(op *gen.OpV, iv *gen.IvV) gen.LitV {
		return gen.LitV{K: "temporal", Pred: "t0", Args: []gen.TermV{x}, Op: op, Iv: iv}
	}
	varIv := &gen.IvV{S: gen.BoundV{K: "var", V: "S"}, E: gen.BoundV{K: "var", V: "E"}}
	opv := func() *gen.OpV {
		s := gen.BoundV{K: "dur", T: int64(c.WA) * gen.Hour}
		if c.NowBound {
			s = gen.BoundV{K: "now"}
		}
		return &gen.OpV{Type: c.Op, Iv: gen.IvV{S: s, E: gen.BoundV{K: "dur", T: int64(c.WB) * gen.Hour}}}
	}
	head := func(p string, args ...gen.TermV) gen.LitV { return gen.LitV{K: "atom", Pred: p, Args: args} }
	switch c.Shape {
	case "operator":
		return []gen.ClauseV{{Head: head("r", x), Body: []gen.LitV{t0(opv(), nil)}}}
	case "derived-operator":
		d := gen.LitV{K: "temporal", Pred: "d", Args: []gen.TermV{x}, Op: opv()}
		return []gen.ClauseV{
			{Head: head("d", x), HeadTime: varIv, Body: []gen.LitV{t0(nil, varIv), {K: "atom", Pred: "e", Args: []gen.TermV{x}}}},
			{Head: head("r", x), Body: []gen.LitV{d}},
		}
	case "enumerate":
		return []gen.ClauseV{{Head: head("r", x, gen.VarT("S"), gen.VarT("E")), Body: []gen.LitV{t0(nil, varIv)}}}
	case "operator-enumerate":
		return []gen.ClauseV{{Head: head("r", x, gen.VarT("S"), gen.VarT("E")), Body: []gen.LitV{t0(opv(), varIv)}}}
	case "enumerate-end":
		return []gen.ClauseV{{Head: head("r", x, gen.VarT("E")), Body: []gen.LitV{t0(nil, &gen.IvV{S: gen.BoundV{K: "ninf"}, E: gen.BoundV{K: "var", V: "E"}})}}}
	case "const-annotation":
		return []gen.ClauseV{{Head: head("r", x), Body: []gen.LitV{t0(nil, &gen.IvV{S: gen.BoundV{K: "ts", T: hts(c.CA)}, E: gen.BoundV{K: "ts", T: hts(c.CB)}})}}}
	case "head-copy":
		return []gen.ClauseV{{Head: head("h", x), HeadTime: varIv, Body: []gen.LitV{t0(nil, varIv)}}}
	case "head-const":
		return []gen.ClauseV{{Head: head("h", x), HeadTime: &gen.IvV{S: gen.BoundV{K: "ts", T: hts(c.CA)}, E: gen.BoundV{K: "ts", T: hts(c.CB)}}, Body: []gen.LitV{{K: "atom", Pred: "e", Args: []gen.TermV{x}}}}}
	case "head-now":
		return []gen.ClauseV{{Head: head("h", x), HeadTime: &gen.IvV{S: gen.BoundV{K: "var", V: "S"}, E: gen.BoundV{K: "now"}}, Body: []gen.LitV{t0(nil, varIv)}}}
	}
	return nil
}

type c14Fail struct{ sig, msg string }

func c14Exec(c c14Case, res *core.Result) *c14Fail {
	if c.Shape == "relations" {
		return c14Relations(c, res)
	}
	var clauses []ast.Clause
	asClauses := !c.Coalesce
	if asClauses && !c14Separated(c) {
		// facts as written would not be a coalesced store: preload and coalesce instead
		asClauses = false
	}
	t0sym := ast.PredicateSym{Symbol: "t0", Arity: 1}
	if asClauses {
		for _, f := range c.Facts {
			iv := ast.Interval{Start: ast.TemporalBound{Type: ast.TimestampBound, Timestamp: hts(f.A)}, End: ast.TemporalBound{Type: ast.TimestampBound, Timestamp: hts(f.B)}}
			clauses = append(clauses, ast.Clause{Head: numAtom("t0", ast.Number(int64(f.V))), HeadTime: &iv})
		}
	}
	for _, v := range c.Es {
		clauses = append(clauses, ast.Clause{Head: numAtom("e", ast.Number(int64(v)))})
	}
	for _, r := range c14Rules(c) {
		clauses = append(clauses, r.Build())
	}
	var extra map[ast.PredicateSym]ast.Decl
	if !asClauses {
		d := ast.NewSyntheticDeclFromSym(t0sym)
		d.Descr = append(d.Descr, ast.NewAtom(ast.DescrTemporal))
		extra = map[ast.PredicateSym]ast.Decl{t0sym: d}
	}
	if len(c.Es) == 0 {
		esym := ast.PredicateSym{Symbol: "e", Arity: 1}
		if extra == nil {
			extra = map[ast.PredicateSym]ast.Decl{}
		}
		extra[esym] = ast.NewSyntheticDeclFromSym(esym)
	}
	unit := parse.SourceUnit{Clauses: clauses}
	text := ""
	for _, cl := range clauses {
		text += cl.String() + "\n"
	}
	if c.ViaParser && asClauses {
		u, err := parse.Unit(strings.NewReader(text))
		if err != nil {
			return &c14Fail{"parse-error", fmt.Sprintf("printed program does not parse: %v\n%s", err, text)}
		}
		unit = u
	}
	pi, err := analysis.AnalyzeOneUnit(unit, extra)
	if err != nil {
		if res != nil {
			res.Ob("skipped:analysis-rejected", 1)
		}
		return nil
	}
	ts := factstore.NewTemporalStore()
	if !asClauses {
		for _, f := range c.Facts {
			iv := ast.Interval{Start: ast.TemporalBound{Type: ast.TimestampBound, Timestamp: hts(f.A)}, End: ast.TemporalBound{Type: ast.TimestampBound, Timestamp: hts(f.B)}}
			ts.Add(numAtom("t0", ast.Number(int64(f.V))), iv)
		}
		ts.Coalesce(t0sym)
	}
	store := factstore.NewMultiIndexedArrayInMemoryStore()
	evErr := engine.EvalProgram(pi, store, engine.WithTemporalStore(ts), engine.WithEvaluationTime(evalTime))
	want := c14Expected(c)
	if res != nil {
		res.Ob("shape:"+c.Shape, 1)
		res.Ob("programs_evaluated", 1)
	}
	if want.wantErr {
		if evErr == nil {
			return &c14Fail{"head-interval-start-after-end-accepted", fmt.Sprintf("a head annotation resolving to start > end was stored without error\n%s", text)}
		}
		return nil
	}
	if evErr != nil {
		return &c14Fail{"evaluation-error:" + c.Shape, fmt.Sprintf("evaluation failed: %v\n%s", evErr, text)}
	}
	got := collectResults(store, ts, nil, nil)
	wantAll := resultSet{}
	for k, v := range want.plain {
		wantAll[k] = v
	}
	for k, v := range want.temporal {
		wantAll[k] = v
	}
	missing, extraF := diffResults(wantAll, got)
	if len(missing) > 0 || len(extraF) > 0 {
		detail := ""
		if c.Shape == "operator" || c.Shape == "derived-operator" {
			detail = ":" + []string{"diamond-minus", "box-minus", "diamond-plus", "box-plus"}[c.Op]
		}
		return &c14Fail{"wrong-result:" + c.Shape + detail, fmt.Sprintf("result differs from the pointwise meaning: missing %v, unexpected %v\nwindow (hours) [%d,%d] op %d, evaluation time 2024-01-10T12:00:00Z\n%s", missing, extraF, c.WA, c.WB, c.Op, text)}
	}
	return nil
}

func c14Relations(c c14Case, res *core.Result) *c14Fail {
	type iv struct{ s, e int64 }
	var ivs []iv
	for s := int64(0); s < 6; s++ {
		for e := s; e < 6; e++ {
			ivs = append(ivs, iv{s, e})
		}
	}
	mk := func(x iv) ast.Constant {
		var a, b ast.Constant
		if c.RelAs == "time" {
			a, b = ast.Time(x.s), ast.Time(x.e)
		} else {
			a, b = ast.Number(x.s), ast.Number(x.e)
		}
		return ast.Pair(&a, &b)
	}
	defs := map[string]func(a, b iv) bool{
		"before":   func(a, b iv) bool { return a.e < b.s },
		"after":    func(a, b iv) bool { return a.s > b.e },
		"meets":    func(a, b iv) bool { return a.e == b.s },
		"overlaps": func(a, b iv) bool { return a.s <= b.e && b.s <= a.e },
		"during":   func(a, b iv) bool { return a.s >= b.s && a.e <= b.e },
		"contains": func(a, b iv) bool { return b.s >= a.s && b.e <= a.e },
		"starts":   func(a, b iv) bool { return a.s == b.s },
		"finishes": func(a, b iv) bool { return a.e == b.e },
		"equals":   func(a, b iv) bool { return a.s == b.s && a.e == b.e },
	}
	var names []string
	for n := range defs {
		names = append(names, n)
	}
	sort.Strings(names)
	decideRel := func(n string, a, b iv) (bool, error) {
		uf := unionfind.New()
		ok, _, err := builtin.Decide(ast.NewAtom(":interval:"+n, mk(a), mk(b)), &uf)
		return ok, err
	}
	converse := map[string]string{"before": "after", "after": "before", "during": "contains", "contains": "during", "overlaps": "overlaps", "equals": "equals", "starts": "starts", "finishes": "finishes"}
	n := 0
	for _, name := range names {
		for _, a := range ivs {
			for _, b := range ivs {
				got, err := decideRel(name, a, b)
				n++
				if err != nil {
					return &c14Fail{"relation-error:" + c.RelAs, fmt.Sprintf(":interval:%s(%v, %v) fails on a pair of %s values: %v", name, mk(a), mk(b), c.RelAs, err)}
				}
				if got != defs[name](a, b) {
					return &c14Fail{"relation-wrong:" + name, fmt.Sprintf(":interval:%s([%d,%d],[%d,%d]) = %v, closed-interval definition says %v", name, a.s, a.e, b.s, b.e, got, !got)}
				}
				if cv, ok := converse[name]; ok {
					other, err := decideRel(cv, b, a)
					if err != nil || other != got {
						return &c14Fail{"relation-converse:" + name, fmt.Sprintf(":interval:%s([%d,%d],[%d,%d]) = %v but :interval:%s of the swapped pair = %v (err %v)", name, a.s, a.e, b.s, b.e, got, cv, other, err)}
					}
				}
			}
		}
	}
	if res != nil {
		res.Evals = n
		res.Ob("relation_decisions", n)
		res.Ob("relation_interval_pairs", len(ivs)*len(ivs))
		res.NonTrivial = true
	}
	return nil
}

func (c14) Run(cs any) core.Result {
	c := cs.(c14Case)
	var res core.Result
	raw, _ := json.Marshal(c)
	res.Key = core.HashKey(string(raw))
	// non-trivial: window end touches an interval end, or two intervals of a value
	w := c14Window(c)
	perV := map[int]int{}
	for _, f := range c.Facts {
		perV[f.V]++
		if hts(f.A) == w.s || hts(f.A) == w.e || hts(f.B) == w.s || hts(f.B) == w.e {
			res.NonTrivial = true
		}
	}
	for _, n := range perV {
		if n >= 2 {
			res.NonTrivial = true
		}
	}
	f := c14Exec(c, &res)
	if f == nil {
		return res
	}
	sig := f.sig
	min := c
	if c.Shape != "relations" && core.ShrinkAllowed(sig) {
		min.Facts = core.ShrinkSlice(c.Facts, func(fs []c14Fact) bool {
			t := c
			t.Facts = fs
			f2 := c14Exec(t, nil)
			return f2 != nil && f2.sig == sig
		})
		if f2 := c14Exec(min, nil); f2 != nil {
			f = f2
		}
	}
	w2, _ := json.Marshal(min)
	res.Violations = append(res.Violations, core.Violation{Sig: sig, Msg: f.msg, Witness: w2})
	return res
}
