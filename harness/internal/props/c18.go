package props

import (
	"bytes"
	"encoding/json"
	"fmt"
	"math/rand"
	"runtime"
	"sort"
	"strings"
	"sync"
	"sync/atomic"
	"time"

	"codeberg.org/TauCeti/mangle-go/analysis"
	"codeberg.org/TauCeti/mangle-go/ast"
	"codeberg.org/TauCeti/mangle-go/engine"
	"codeberg.org/TauCeti/mangle-go/factstore"
	"codeberg.org/TauCeti/mangle-go/parse"
	"codeberg.org/TauCeti/mangle-go/provenance"
	"github.com/anishathalye/porcupine"

	"verif/internal/canon"
	"verif/internal/core"
	"verif/internal/gen"
)

// C18 — the concurrent store is linearizable; parallel evaluations do not interfere.
// This check is run from a binary built with -race (see run.sh); a race report
// kills the worker (GORACE=halt_on_error=1) and is reported by the supervisor.

type c18Op struct {
	Op   string `json:"op"` // add remove contains query merge count list
	Atom int    `json:"atom,omitempty"`
	Pat  int    `json:"pat,omitempty"`
	Set  uint8  `json:"set,omitempty"` // merge: atoms of the other store
}

type c18Case struct {
	Mode     string    `json:"mode"` // lin | par
	Kind     string    `json:"kind,omitempty"`
	Init     uint8     `json:"init,omitempty"`
	Clients  [][]c18Op `json:"clients,omitempty"`
	Procs    int       `json:"procs,omitempty"`
	ParSeed  int64     `json:"parSeed,omitempty"`
	ParCount int       `json:"parCount,omitempty"`
	// Nested (lin): the concurrent store is wrapped in a second ConcurrentFactStore and the clients are split between
	// the two handles (a component that defensively wraps the store it is handed while its caller keeps using its own
	// handle): still one logical store
	Nested bool `json:"nested,omitempty"`
}

type c18 struct{}

func init() { core.Register(c18{}) }

func (c18) ID() string { return "C18" }
func (c18) Cases(tier string) int {
	if tier == "thorough" {
		return 60000
	}
	return 2000
}
func (c18) Describe() core.Info {
	return core.Info{
		Level: "exploration",
		Rule: "run from a -race build. (lin) 4-8 goroutines x 5-12 operations (add, remove, contains, pattern query, merge from another store, count, list) on a ConcurrentFactStore over each of the four base stores (every fifth history: wrapped a second time, the clients split between the inner and the outer handle), 6-atom universe, GOMAXPROCS in {2,4,16}, client-side jitter (Gosched, 0-50us sleeps), slow collaborators that yield inside Merge's source store and inside the GetFacts callback; histories recorded at the client boundary with one atomic logical clock (call stamp before invoking, return stamp after the reply) and checked with porcupine v1.3.0 against a sequential set model (bitmask state; a query returns exactly the matching set; merge is one atomic union); Unknown (60s timeout) = inconclusive. (par) 12-16 goroutines each running parse -> analyse -> evaluate -> explain -> simple-column write/read on their own generated programs and stores, all started together; every result must equal the result of the same pipeline run alone beforehand. Any WARNING: DATA RACE / concurrent map fatal error in the worker is a violation. Non-trivial: history in which a write overlapped a query in real time (lin) or >= 12 pipelines ran together (par); distinct by case content. Evidence: overlapping operation pairs, write/query overlaps.",
		Assumptions: []string{"only interleavings the Go scheduler produced are judged", "no hash-equal distinct atoms in the universe"},
		Env:         []string{"GORACE=halt_on_error=1", "GOMAXPROCS=16"},
		MaxWorkers:  4,
		PerCaseTimeout: 180e9,
	}
}

var c18Universe = []ast.Atom{
	ast.NewAtom("p", ast.Number(1)), ast.NewAtom("p", ast.Number(2)),
	ast.NewAtom("q", ast.Number(1), ast.TrueConstant), ast.NewAtom("q", ast.Number(2), ast.TrueConstant), ast.NewAtom("q", ast.Number(1), ast.FalseConstant),
	ast.NewAtom("z"),
}

type c18Pattern struct {
	q     ast.Atom
	match uint8 // bitmask of universe atoms matching
}

var c18Patterns = func() []c18Pattern {
	x, y := ast.Variable{Symbol: "X"}, ast.Variable{Symbol: "Y"}
	return []c18Pattern{
		{ast.NewAtom("p", x), 0b000011},
		{ast.NewAtom("q", ast.Number(1), x), 0b010100},
		{ast.NewAtom("q", x, ast.TrueConstant), 0b001100},
		{ast.NewAtom("q", x, y), 0b011100},
		{ast.NewAtom("z"), 0b100000},
		{ast.NewAtom("p", ast.Number(2)), 0b000010},
	}
}()

func (c18) Gen(r *rand.Rand, tier string, i int) any {
	if i%20 == 19 {
		return c18Case{Mode: "par", ParSeed: r.Int63(), ParCount: 12 + r.Intn(5), Procs: []int{4, 16}[r.Intn(2)]}
	}
	c := c18Case{Mode: "lin", Kind: baseKinds[r.Intn(len(baseKinds))], Init: uint8(r.Intn(64)), Procs: []int{2, 4, 16}[r.Intn(3)], Nested: i%5 == 2}
	nc := 4 + r.Intn(5)
	for k := 0; k < nc; k++ {
		var ops []c18Op
		n := 5 + r.Intn(8)
		for j := 0; j < n; j++ {
			switch x := r.Intn(100); {
			case x < 28:
				ops = append(ops, c18Op{Op: "add", Atom: r.Intn(6)})
			case x < 48:
				ops = append(ops, c18Op{Op: "remove", Atom: r.Intn(6)})
			case x < 60:
				ops = append(ops, c18Op{Op: "contains", Atom: r.Intn(6)})
			case x < 82:
				ops = append(ops, c18Op{Op: "query", Pat: r.Intn(len(c18Patterns))})
			case x < 92:
				ops = append(ops, c18Op{Op: "merge", Set: uint8(r.Intn(64))})
			case x < 96:
				ops = append(ops, c18Op{Op: "count"})
			default:
				ops = append(ops, c18Op{Op: "list"})
			}
		}
		c.Clients = append(c.Clients, ops)
	}
	return c
}

func (c18) Decode(raw json.RawMessage) (any, error) {
	var c c18Case
	err := json.Unmarshal(raw, &c)
	return c, err
}

// slowSource is a read-only store that yields between facts (widens Merge's critical section legitimately).
type slowSource struct{ atoms []ast.Atom }

func (s slowSource) GetFacts(q ast.Atom, cb func(ast.Atom) error) error {
	for _, a := range s.atoms {
		if a.Predicate == q.Predicate && factstore.Matches(q.Args, a.Args) {
			runtime.Gosched()
			if err := cb(a); err != nil {
				return err
			}
		}
	}
	return nil
}
func (s slowSource) Contains(a ast.Atom) bool { return false }
func (s slowSource) ListPredicates() []ast.PredicateSym {
	seen := map[ast.PredicateSym]bool{}
	var out []ast.PredicateSym
	for _, a := range s.atoms {
		if !seen[a.Predicate] {
			seen[a.Predicate] = true
			out = append(out, a.Predicate)
		}
	}
	return out
}
func (s slowSource) EstimateFactCount() int { return len(s.atoms) }

type c18Out struct {
	B    bool
	Set  uint8
	N    int
	Bad  string // non-universe atom or duplicate in a query result
}

func atomIndex(a ast.Atom) int {
	k := canon.Atom(a)
	for i, u := range c18Universe {
		if canon.Atom(u) == k {
			return i
		}
	}
	return -1
}

func popcount(x uint8) int {
	n := 0
	for ; x != 0; x &= x - 1 {
		n++
	}
	return n
}

var c18Model = porcupine.Model{
	Init: func() interface{} { return uint8(0) },
	Step: func(state, input, output interface{}) (bool, interface{}) {
		st := state.(uint8)
		in := input.(c18Op)
		out := output.(c18Out)
		bit := uint8(1) << uint(in.Atom)
		switch in.Op {
		case "init":
			return true, in.Set
		case "add":
			return out.B == (st&bit == 0), st | bit
		case "remove":
			return out.B == (st&bit != 0), st &^ bit
		case "contains":
			return out.B == (st&bit != 0), st
		case "query":
			return out.Bad == "" && out.Set == st&c18Patterns[in.Pat].match, st
		case "merge":
			return true, st | in.Set
		case "count":
			return out.N == popcount(st), st
		case "list":
			// must list every predicate that has a fact (may list more)
			need := uint8(0)
			if st&0b000011 != 0 {
				need |= 1
			}
			if st&0b011100 != 0 {
				need |= 2
			}
			if st&0b100000 != 0 {
				need |= 4
			}
			return out.Set&need == need, st
		}
		return false, st
	},
	Equal: func(a, b interface{}) bool { return a.(uint8) == b.(uint8) },
	DescribeOperation: func(input, output interface{}) string {
		return fmt.Sprintf("%+v -> %+v", input, output)
	},
}

func c18Lin(c c18Case, res *core.Result) *evalFail {
	old := runtime.GOMAXPROCS(c.Procs)
	defer runtime.GOMAXPROCS(old)
	base := newBase(c.Kind)
	for i, a := range c18Universe {
		if c.Init&(1<<uint(i)) != 0 {
			base.Add(a)
		}
	}
	inner := factstore.NewConcurrentFactStore(base)
	handles := []factstore.FactStoreWithRemove{inner, inner}
	if c.Nested {
		handles[1] = factstore.NewConcurrentFactStore(inner)
	}
	var clock int64
	var mu sync.Mutex
	ops := []porcupine.Operation{{ClientId: 0, Input: c18Op{Op: "init", Set: c.Init}, Call: 0, Output: c18Out{}, Return: 0}}
	atomic.StoreInt64(&clock, 1)
	var wg sync.WaitGroup
	start := make(chan struct{})
	for ci, plan := range c.Clients {
		wg.Add(1)
		go func(ci int, plan []c18Op) {
			defer wg.Done()
			r := rand.New(rand.NewSource(int64(ci)*7919 + int64(len(plan))))
			store := handles[ci%2]
			<-start
			for _, op := range plan {
				switch r.Intn(4) {
				case 0:
					runtime.Gosched()
				case 1:
					time.Sleep(time.Duration(r.Intn(50)) * time.Microsecond)
				}
				var out c18Out
				call := atomic.AddInt64(&clock, 1)
				switch op.Op {
				case "add":
					out.B = store.Add(c18Universe[op.Atom])
				case "remove":
					out.B = store.Remove(c18Universe[op.Atom])
				case "contains":
					out.B = store.Contains(c18Universe[op.Atom])
				case "query":
					seen := map[int]bool{}
					store.GetFacts(c18Patterns[op.Pat].q, func(a ast.Atom) error {
						runtime.Gosched() // slow consumer
						i := atomIndex(a)
						if i < 0 {
							out.Bad = "alien atom " + a.String()
							return nil
						}
						if seen[i] {
							out.Bad = "duplicate " + a.String()
						}
						seen[i] = true
						out.Set |= 1 << uint(i)
						return nil
					})
				case "merge":
					var atoms []ast.Atom
					for i, a := range c18Universe {
						if op.Set&(1<<uint(i)) != 0 {
							atoms = append(atoms, a)
						}
					}
					store.Merge(slowSource{atoms})
				case "count":
					out.N = store.EstimateFactCount()
				case "list":
					for _, p := range store.ListPredicates() {
						switch p.Symbol {
						case "p":
							out.Set |= 1
						case "q":
							out.Set |= 2
						case "z":
							out.Set |= 4
						}
					}
				}
				ret := atomic.AddInt64(&clock, 1)
				mu.Lock()
				ops = append(ops, porcupine.Operation{ClientId: ci + 1, Input: op, Call: call, Output: out, Return: ret})
				mu.Unlock()
			}
		}(ci, plan)
	}
	close(start)
	wg.Wait()
	// interleaving evidence
	overlaps, wq := 0, 0
	isWrite := func(o c18Op) bool { return o.Op == "add" || o.Op == "remove" || o.Op == "merge" }
	for i := 1; i < len(ops); i++ {
		for j := i + 1; j < len(ops); j++ {
			a, b := ops[i], ops[j]
			if a.ClientId != b.ClientId && a.Call < b.Return && b.Call < a.Return {
				overlaps++
				ai, bi := a.Input.(c18Op), b.Input.(c18Op)
				if (isWrite(ai) && bi.Op == "query") || (isWrite(bi) && ai.Op == "query") {
					wq++
				}
			}
		}
	}
	result, info := porcupine.CheckOperationsVerbose(c18Model, ops, 60*time.Second)
	if res != nil {
		res.Ob("histories", 1)
		res.Ob("operations_recorded", len(ops)-1)
		res.Ob("overlapping_operation_pairs", overlaps)
		res.Ob("write_query_overlaps", wq)
		res.Ob("kind:"+c.Kind, 1)
		if wq > 0 {
			res.NonTrivial = true
			res.Ob("histories_with_write_overlapping_query", 1)
		}
	}
	switch result {
	case porcupine.Ok:
		return nil
	case porcupine.Unknown:
		if res != nil {
			res.Inconclusive = "porcupine-timeout"
		}
		return nil
	}
	_ = info
	sort.Slice(ops, func(i, j int) bool { return ops[i].Call < ops[j].Call })
	var sb strings.Builder
	for _, o := range ops {
		fmt.Fprintf(&sb, "  client %d [%d,%d] %+v -> %+v\n", o.ClientId, o.Call, o.Return, o.Input, o.Output)
	}
	// name the operation kinds involved
	return &evalFail{"not-linearizable:" + c.Kind, fmt.Sprintf("history on ConcurrentFactStore(%s) is not linearizable against the set model:\n%s", c.Kind, sb.String())}
}

// ---- parallel pipelines

type c18Pipe struct {
	text   string
	result string
}

func c18Pipeline(text string) (string, error) {
	unit, err := parse.Unit(strings.NewReader(text))
	if err != nil {
		return "", fmt.Errorf("parse: %w", err)
	}
	pi, err := analysis.AnalyzeAndCheckBounds([]parse.SourceUnit{unit}, nil, analysis.LogBoundsMismatch)
	if err != nil {
		return "analysis-rejected", nil
	}
	store := factstore.NewMultiIndexedArrayInMemoryStore()
	if err := engine.EvalProgram(pi, store, engine.WithCreatedFactLimit(500)); err != nil {
		return "evaluation-error: " + err.Error(), nil
	}
	set, _, _ := storeSet(store)
	keys := set.Keys()
	// explain a few facts
	nproofs := 0
	for i, k := range keys {
		if i >= 5 {
			break
		}
		if ps, err := provenance.Explain(pi, store, set[k], provenance.Options{MaxProofs: 2}); err == nil {
			nproofs += len(ps)
		}
	}
	// simple column round trip
	var buf bytes.Buffer
	sc := factstore.SimpleColumn{Deterministic: true}
	if err := sc.WriteTo(store, &buf); err != nil {
		return "", fmt.Errorf("write: %w", err)
	}
	back := factstore.NewMultiIndexedArrayInMemoryStore()
	if err := sc.ReadInto(bytes.NewReader(buf.Bytes()), back); err != nil {
		return "", fmt.Errorf("read: %w", err)
	}
	set2, _, _ := storeSet(back)
	_ = ast.Date(2024, 1, 2)
	return fmt.Sprintf("%d facts %s | proofs %d | reloaded %s | bytes %d", len(keys), core.HashKey(keys...), nproofs, core.HashKey(set2.Keys()...), buf.Len()), nil
}

// c18BuiltinBlock: clauses that take every pipeline through library functions that consult tables or the
// environment (time zones, layouts, string and name conversion), each pipeline with its own zone and instants, so a
// piece of state that the library shares between evaluations shows in the results (or to the race detector).
func c18BuiltinBlock(r *rand.Rand, i int) string {
	zones := []string{"Asia/Tokyo", "Asia/Dubai", "Europe/Zurich", "America/New_York", "Australia/Sydney", "Asia/Kolkata", "UTC", "America/Sao_Paulo", "Africa/Nairobi", "Pacific/Auckland"}
	z := zones[(i+r.Intn(3))%len(zones)]
	if _, err := time.LoadLocation(z); err != nil {
		z = "UTC"
	}
	var sb strings.Builder
	n := 20 + r.Intn(40)
	for k := 0; k < n; k++ {
		fmt.Fprintf(&sb, "zinst(fn:time:parse_rfc3339(\"2024-%02d-%02dT%02d:30:00Z\")).\n", 1+(k+i)%12, 1+(k*7+i)%28, (k*5+i)%24)
	}
	fmt.Fprintf(&sb, "zcivil(T, S) :- zinst(T), S = fn:time:format_civil(T, %q, /minute).\n", z)
	fmt.Fprintf(&sb, "zday(T, D) :- zinst(T), D = fn:time:trunc_civil(T, %q, /day).\n", z)
	fmt.Fprintf(&sb, "zback(T, U) :- zinst(T), S = fn:time:format_civil(T, %q, /second), C = fn:string:replace(S, \"Z\", \"\", 1), U = fn:string:concat(C, %q).\n", z, z)
	fmt.Fprintf(&sb, "zname(N) :- zinst(T), N = fn:time:year(T).\n")
	return sb.String()
}

func c18Par(c c18Case, res *core.Result) *evalFail {
	old := runtime.GOMAXPROCS(c.Procs)
	defer runtime.GOMAXPROCS(old)
	r := rand.New(rand.NewSource(c.ParSeed))
	pipes := make([]c18Pipe, c.ParCount)
	for i := range pipes {
		o := gen.ProgOpts{Negation: true, Compare: true, Functions: r.Intn(2) == 0, Lists: r.Intn(2) == 0, Let: true, Do: r.Intn(2) == 0, DoPercent: 50, Wildcards: true, FnInAtoms: true,
			Reducers: []string{"fn:count", "fn:sum", "fn:min", "fn:max"}}
		p := gen.RandProgram(r, o)
		pipes[i].text = progText(p) + c18BuiltinBlock(r, i)
		solo, err := c18Pipeline(pipes[i].text)
		if err != nil {
			solo = "pipeline-error: " + err.Error()
		}
		pipes[i].result = solo
	}
	got := make([]string, len(pipes))
	var wg sync.WaitGroup
	start := make(chan struct{})
	for i := range pipes {
		wg.Add(1)
		go func(i int) {
			defer wg.Done()
			<-start
			for rep := 0; rep < 3; rep++ {
				s, err := c18Pipeline(pipes[i].text)
				if err != nil {
					s = "pipeline-error: " + err.Error()
				}
				got[i] = s
				if s != pipes[i].result {
					return
				}
			}
		}(i)
	}
	close(start)
	wg.Wait()
	if res != nil {
		res.Ob("parallel_rounds", 1)
		res.Ob("pipelines_run_in_parallel", len(pipes)*3)
		for i := range pipes {
			if strings.HasPrefix(pipes[i].result, "pipeline-error") {
				res.Ob("pipelines_ending_in_error", 1)
			} else {
				res.Ob("pipelines_ending_with_result", 1)
			}
		}
		res.NonTrivial = len(pipes) >= 12
	}
	for i := range pipes {
		if got[i] != pipes[i].result {
			return &evalFail{"parallel-result-differs", fmt.Sprintf("pipeline %d gives %q when run with %d others, %q alone\nprogram:\n%s", i, got[i], len(pipes)-1, pipes[i].result, pipes[i].text)}
		}
	}
	return nil
}

func (c18) Run(cs any) core.Result {
	c := cs.(c18Case)
	var res core.Result
	raw, _ := json.Marshal(c)
	res.Key = core.HashKey(string(raw))
	var f *evalFail
	if c.Mode == "par" {
		f = c18Par(c, &res)
	} else {
		f = c18Lin(c, &res)
	}
	if f != nil {
		res.Violations = append(res.Violations, core.Violation{Sig: f.sig, Msg: f.msg})
	}
	return res
}
