package props

import (
	"runtime/debug"
	"bytes"
	"compress/gzip"
	"embed"
	"encoding/json"
	"fmt"
	"math/rand"
	"sort"
	"strings"

	"codeberg.org/TauCeti/mangle-go/analysis"
	"codeberg.org/TauCeti/mangle-go/ast"
	"codeberg.org/TauCeti/mangle-go/builtin"
	"codeberg.org/TauCeti/mangle-go/engine"
	"codeberg.org/TauCeti/mangle-go/factstore"
	"codeberg.org/TauCeti/mangle-go/parse"

	"verif/internal/core"
	"verif/internal/gen"
)

// C10 — no input text can crash the front end.

//go:embed c10seeds/*.mg
var c10SeedFS embed.FS

type c10Case struct {
	Kind  string `json:"kind"`  // source | factfile
	Input []byte `json:"input"` // base64 in JSON
	Via   string `json:"via"`   // mutation description
}

type c10 struct{}

func init() { core.Register(c10{}) }

func (c10) ID() string { return "C10" }
func (c10) Cases(tier string) int {
	if tier == "thorough" {
		return 5000000
	}
	return 120000
}
func (c10) Describe() core.Info {
	return core.Info{
		Level: "exploration",
		Rule: "inputs derived from a seed corpus (all 26 .mg files of the repository, a snippet file covering every construct, printed programs from the typed generators, simple-column files written by the library) by deterministic mutators: token level (delete / duplicate / swap / splice tokens, unbalance brackets, truncate inside escapes and \\u{), byte level (flips, NULs, invalid UTF-8, truncation), fact-file level (empty lines, negative / huge / non-numeric counts, arity != columns, truncated columns, bad percent escapes). Each input is offered to parse.Unit, parse.Clause, parse.Term, parse.LiteralOrFormula, parse.PredicateName and ast.Unescape; a parsed unit goes through AnalyzeAndCheckBounds(ErrorForBoundsMismatch) and, if accepted, EvalProgram with a created-fact limit, a temporal store and a counting store wrapper (logical step bound); fact files go through SimpleColumn.ReadInto and the lazy SimpleColumnStore (plain and gzip) with GetFacts on every listed predicate. Refuted by any panic (recovered in the worker, attributed to the journalled input) or by the step bound; a wall-clock watchdog yields inconclusive only. Non-trivial: input reaches a stage beyond lexing (parses, or fails inside the parser after >= 3 tokens); distinct by input hash. A third of the declaration units are lattice units (fundep + merge declarations with column lists that are too long, repeat or miss a column, merge predicates of arity 1-5, modes of the wrong length, merge predicates that call themselves) whose rules derive several values per key so that the merge runs.",
		Assumptions: []string{"'all byte strings' is approached by mutation of a structured corpus, not decided"},
		PerCaseTimeout: 60e9,
	}
}

var c10Seeds = func() [][]byte {
	var out [][]byte
	ents, _ := c10SeedFS.ReadDir("c10seeds")
	for _, e := range ents {
		b, err := c10SeedFS.ReadFile("c10seeds/" + e.Name())
		if err == nil {
			out = append(out, b)
			// individual lines / clauses as extra seeds
			for _, l := range strings.Split(string(b), "\n") {
				l = strings.TrimSpace(l)
				if len(l) > 3 && !strings.HasPrefix(l, "#") {
					out = append(out, []byte(l))
				}
			}
		}
	}
	return out
}()

func c10FactFileSeed(r *rand.Rand) []byte {
	// a simple-column file written by the library from random facts
	st := factstore.NewMultiIndexedArrayInMemoryStore()
	n := r.Intn(8)
	for i := 0; i < n; i++ {
		ar := r.Intn(3)
		a := gen.AtomV{P: []string{"p", "q", "a.b"}[r.Intn(3)]}
		for k := 0; k < ar; k++ {
			a.Args = append(a.Args, gen.RandVal(r, gen.ConstOpts{MaxDepth: 1}, 0))
		}
		st.Add(a.Atom())
	}
	var buf bytes.Buffer
	factstore.SimpleColumn{Deterministic: true}.WriteTo(st, &buf)
	return buf.Bytes()
}

var c10Tokens = []string{"(", ")", "[", "]", "{", "}", "<", ">", ",", ".", ":-", "|>", "!", "=", "!=", "<=", ">=", "@", "[-", "[+", "<-", "<+", ":", "_", "X", "fn:plus", "fn:group_by()", "do", "let", "Decl", "bound", "descr", "Package", "Use", "now", "7d", "2024-01-15", "\"", "'", "`", "b\"", "\\", "\\x", "\\u{", "/", "/a", "1", "-", "1.5", ".5", "e", "temporal", "opt", ".Pair<", "⟸", "#", "\n", "\x00", "\xff"}

func c10Tokenise(s string) []string {
	var toks []string
	cur := ""
	flush := func() {
		if cur != "" {
			toks = append(toks, cur)
			cur = ""
		}
	}
	for _, ch := range s {
		switch {
		case ch == ' ' || ch == '\n' || ch == '\t':
			flush()
			toks = append(toks, string(ch))
		case strings.ContainsRune("()[]{},.<>!=@|:\"'`\\", ch):
			flush()
			toks = append(toks, string(ch))
		default:
			cur += string(ch)
		}
	}
	flush()
	return toks
}

func c10Mutate(r *rand.Rand, seed []byte) ([]byte, string) {
	n := 1 + r.Intn(3)
	var how []string
	cur := seed
	for k := 0; k < n; k++ {
		switch r.Intn(13) {
		case 0, 1, 2, 3: // token level
			toks := c10Tokenise(string(cur))
			if len(toks) == 0 {
				break
			}
			i := r.Intn(len(toks))
			switch r.Intn(5) {
			case 0:
				toks = append(toks[:i], toks[i+1:]...)
				how = append(how, "delete-token")
			case 1:
				toks = append(toks[:i], append([]string{toks[i]}, toks[i:]...)...)
				how = append(how, "duplicate-token")
			case 2:
				j := r.Intn(len(toks))
				toks[i], toks[j] = toks[j], toks[i]
				how = append(how, "swap-tokens")
			case 3:
				toks[i] = c10Tokens[r.Intn(len(c10Tokens))]
				how = append(how, "replace-token")
			default:
				toks = append(toks[:i], append([]string{c10Tokens[r.Intn(len(c10Tokens))]}, toks[i:]...)...)
				how = append(how, "insert-token")
			}
			cur = []byte(strings.Join(toks, ""))
		case 4: // splice with another seed
			o := c10Seeds[r.Intn(len(c10Seeds))]
			if len(cur) > 0 && len(o) > 0 {
				cur = append(append([]byte{}, cur[:r.Intn(len(cur))]...), o[r.Intn(len(o)):]...)
			}
			how = append(how, "splice")
		case 5: // truncate
			if len(cur) > 0 {
				cur = cur[:r.Intn(len(cur))]
			}
			how = append(how, "truncate")
		case 6: // byte flip
			if len(cur) > 0 {
				c2 := append([]byte{}, cur...)
				c2[r.Intn(len(c2))] ^= byte(1 << uint(r.Intn(8)))
				cur = c2
			}
			how = append(how, "bit-flip")
		case 7: // insert special bytes
			sp := [][]byte{{0}, {0xff}, {0xc3}, {0xe2, 0x82}, {0xf0, 0x9f}, []byte("\\"), []byte("\\u{"), []byte("\\x4"), []byte("\r\n"), []byte("\"\"\""), []byte("`")}[r.Intn(11)]
			i := 0
			if len(cur) > 0 {
				i = r.Intn(len(cur))
			}
			cur = append(append(append([]byte{}, cur[:i]...), sp...), cur[i:]...)
			how = append(how, "insert-bytes")
		case 8: // nest brackets deeply
			d := 1 + r.Intn(40)
			open := []string{"[", "(", "{", "fn:list(", ".Pair<", "[-["}[r.Intn(6)]
			cur = []byte("p(" + strings.Repeat(open, d) + string(cur))
			how = append(how, "deep-nesting")
		case 9: // repeat
			if len(cur) < 2000 {
				cur = bytes.Repeat(cur, 1+r.Intn(4))
			}
			how = append(how, "repeat")
		case 10: // number extremes
			nums := []string{"99999999999999999999", "-9223372036854775808", "1e999", "0.0000000000000000000000001", "1.7976931348623157e308", "-0", "00012", "1e", ".e5", "9999999999d", "2024-13-45", "2024-01-15T25:61:61Z", "99999999999999h"}
			cur = append(append([]byte{}, cur...), []byte(" p("+nums[r.Intn(len(nums))]+").")...)
			how = append(how, "numbers")
		case 11: // a built-in function applied to boundary arguments: in a fact head (evaluated by analysis), in a rule body and in a let-transform (evaluated by the engine)
			cur = append([]byte{}, cur...)
			for j := 0; j < 3; j++ {
				call := c10BoundaryCall(r)
				extra := []string{" bnd(" + call + ").", " bndr(X) :- X = " + call + ".", " bndl(Y) :- bnde(_) |> let Y = " + call + ". bnde(1)."}[r.Intn(3)]
				cur = append(cur, []byte(extra)...)
			}
			how = append(how, "builtin-boundary-call")
		default: // none
			how = append(how, "as-is")
		}
	}
	if len(cur) > 20000 {
		cur = cur[:20000]
	}
	return cur, strings.Join(how, "+")
}

var c10FnArity = map[string]int{}

var c10FnNames = func() []string {
	var out []string
	for f := range builtin.Functions {
		out = append(out, f.Symbol)
		c10FnArity[f.Symbol] = f.Arity
	}
	sort.Strings(out)
	return out
}()

var c10PredArity = map[string]int{}

var c10PredNames = func() []string {
	var out []string
	for p := range builtin.Predicates {
		out = append(out, p.Symbol)
		c10PredArity[p.Symbol] = p.Arity
	}
	sort.Strings(out)
	return out
}()

// c10BoundaryPredCall prints a built-in predicate applied to boundary arguments (declared arity in 4 of 5 calls).
func c10BoundaryPredCall(r *rand.Rand) string {
	p := c10PredNames[r.Intn(len(c10PredNames))]
	n := c10PredArity[p]
	if r.Intn(5) == 0 {
		n = r.Intn(5)
	}
	pool := c10BoundaryArgs
	if r.Intn(2) == 0 {
		pool = c10BoundaryArgs[:c10BoundaryInts]
	}
	args := make([]string, n)
	for i := range args {
		args[i] = pool[r.Intn(len(pool))]
		if r.Intn(4) == 0 {
			args[i] = "Z"
		}
	}
	return p + "(" + strings.Join(args, ", ") + ")"
}

var c10BoundaryArgs = []string{"0", "1", "-1", "2", "3", "7", "63", "64", "65", "2147483648", "4294967296", "-4294967296", "4611686018427387904", "9223372036854775807", "-9223372036854775808", "-9223372036854775807",
	"0.0", "-0.0", "1.5", "1e308", "-1e308", "5e-324", "\"\"", "\"a\"", "\"\\u{10ffff}\"", "b\"\"", "/a", "[]", "[1]", "[1, 2, 3]", "[[]]", "{}", "[/a: 1]", "{/a: 1}", "fn:pair(1, 2)", "fn:list()", "fn:cons(1, [])",
	"fn:time:parse_rfc3339(\"2024-01-15T00:00:00Z\")", "fn:duration:parse(\"1h\")", "fn:duration:parse(\"-2562047h\")", "X", "_"}

const c10BoundaryInts = 16

// c10BoundaryCall prints a call of a registered built-in function with 0-4 boundary arguments (the declared arity is respected in 4 of 5 calls).
// c10ArithTuples: argument tuples whose partial products or sums wrap around (two factors of 2^32, 2^62 * 2 * 2,
// MinInt64 and -1, a zero in any place).
var c10ArithTuples = []string{"1, 4294967296, 4294967296", "7, 4611686018427387904, 2, 2", "5, 2147483648, 2147483648, 4", "-9223372036854775808, -1", "9223372036854775807, 9223372036854775807, 2",
	"1, 0", "0, 0", "0, 0, 5", "1, 2, 0", "-9223372036854775808, -1, -1", "3, -4294967296, 4294967296", "1, 65536, 65536, 65536, 65536", "9223372036854775807, 1", "-1, -9223372036854775808"}

func c10BoundaryCall(r *rand.Rand) string {
	if r.Intn(10) == 0 {
		f := []string{"fn:div", "fn:mult", "fn:mod", "fn:plus", "fn:minus", "fn:float:div", "fn:float:mult", "fn:float:plus"}[r.Intn(8)]
		return f + "(" + c10ArithTuples[r.Intn(len(c10ArithTuples))] + ")"
	}
	f := c10FnNames[r.Intn(len(c10FnNames))]
	n := r.Intn(5)
	if ar := c10FnArity[f]; r.Intn(5) != 0 {
		// mostly the declared arity (variadic: 1-4), so that the call survives the arity check
		if ar >= 0 {
			n = ar
		} else {
			n = 1 + r.Intn(4)
		}
	}
	args := make([]string, n)
	pool := c10BoundaryArgs
	if r.Intn(2) == 0 {
		pool = c10BoundaryArgs[:c10BoundaryInts] // integers only
	}
	for i := range args {
		args[i] = pool[r.Intn(len(pool))]
		if r.Intn(12) == 0 {
			args[i] = c10BoundaryCall2(r)
		}
	}
	return f + "(" + strings.Join(args, ", ") + ")"
}

func c10BoundaryCall2(r *rand.Rand) string {
	f := c10FnNames[r.Intn(len(c10FnNames))]
	return f + "(" + c10BoundaryArgs[r.Intn(len(c10BoundaryArgs))] + ", " + c10BoundaryArgs[r.Intn(len(c10BoundaryArgs))] + ")"
}

var c10Blank = []string{" ", "\t", "  ", " \t ", "\r", "\v", "\f", "\u00a0", "\u2028", "\x00", "\r\r", " \r"}

func c10MutateFactFile(r *rand.Rand, seed []byte) ([]byte, string) {
	lines := strings.Split(string(seed), "\n")
	how := ""
	switch r.Intn(13) {
	case 0:
		i := r.Intn(len(lines) + 1)
		lines = append(lines[:i], append([]string{""}, lines[i:]...)...)
		how = "empty-line"
	case 10:
		// a line that is blank but not empty, inserted or in place of a header / column line
		ws := c10Blank[r.Intn(len(c10Blank))]
		if r.Intn(2) == 0 || len(lines) < 2 {
			i := r.Intn(len(lines) + 1)
			lines = append(lines[:i], append([]string{ws}, lines[i:]...)...)
			how = "blank-line-inserted"
		} else {
			lines[r.Intn(len(lines))] = ws
			how = "blank-line-replaces"
		}
	case 11:
		// blanks, carriage returns or other separators around the content of one or all lines
		ws := c10Blank[r.Intn(len(c10Blank))]
		all := r.Intn(3) == 0
		k := r.Intn(len(lines))
		for i := range lines {
			if !all && i != k {
				continue
			}
			switch r.Intn(3) {
			case 0:
				lines[i] = ws + lines[i]
			case 1:
				lines[i] = lines[i] + ws
			default:
				lines[i] = strings.Replace(lines[i], " ", ws+" ", 1)
			}
		}
		how = "blank-padding"
	case 12:
		// two independent mutations on one file
		b, h1 := c10MutateFactFile(r, seed)
		b, h2 := c10MutateFactFile(r, b)
		return b, h1 + "+" + h2
	case 1:
		lines[0] = []string{"-1", "99999999999", "x", "", "65537", " 1", "1 1", "0x1"}[r.Intn(8)]
		how = "bad-predicate-count"
	case 2:
		if len(lines) > 1 {
			parts := strings.Fields(lines[1])
			if len(parts) == 3 {
				parts[1+r.Intn(2)] = []string{"-1", "99999999999", "x", "1025", "0", "7", "4294967297"}[r.Intn(7)]
				lines[1] = strings.Join(parts, " ")
			}
		}
		how = "bad-arity-or-count"
	case 3:
		if len(lines) > 2 {
			lines = lines[:1+r.Intn(len(lines)-1)]
		}
		how = "truncated-columns"
	case 4:
		if len(lines) > 1 {
			i := 1 + r.Intn(len(lines)-1)
			if r.Intn(3) == 0 {
				lines[i] = c10BoundaryCall(r)
			} else {
				lines[i] = []string{"/a%", "/a%zz", "/%41%", "/", "//", "/a b", "%2F", "[", "fn:time:parse_rfc3339(\"x\")", "fn:pair(1)", "\"unterminated", "1 2", "X", "_", "fn:foo(1)", "[-1]", "{/a : }"}[r.Intn(17)]
			}
		}
		how = "bad-column-value"
	case 5:
		if len(lines) > 1 {
			lines[1] = []string{"p", "p 1", "p 1 1 1", ": 1 1", "P 1 1", "p(X) 1 1", "fn:p 1 1", "/p 1 1"}[r.Intn(8)]
		}
		how = "bad-header-line"
	case 6:
		b, h := c10Mutate(r, seed)
		return b, "generic:" + h
	case 7:
		// duplicate predicate header
		if len(lines) > 1 {
			lines = append(lines[:2], append([]string{lines[1]}, lines[2:]...)...)
		}
		how = "duplicate-header"
	default:
		how = "as-is"
	}
	return []byte(strings.Join(lines, "\n")), how
}

func (c10) Gen(r *rand.Rand, tier string, i int) any {
	if i%5 == 4 {
		b, how := c10MutateFactFile(r, c10FactFileSeed(r))
		return c10Case{Kind: "factfile", Input: b, Via: how}
	}
	var seed []byte
	switch r.Intn(10) {
	case 0:
		o := gen.ProgOpts{Negation: true, Compare: true, Functions: true, Lists: true, Let: true, Do: true, DoPercent: 50, Wildcards: true, FnInAtoms: true}
		seed = []byte(progText(gen.RandProgram(r, o)))
	case 1:
		seed = []byte(tprogText(gen.RandTemporalProgram(r), ""))
	case 2:
		seed = []byte(gen.RandClauseV(r, gen.ConstOpts{MaxDepth: 2}).Build().String())
	case 3, 4:
		// a small well-formed unit whose clauses apply built-in functions to boundary arguments
		var sb strings.Builder
		sb.WriteString("bnde(1).")
		for j := 1 + r.Intn(3); j > 0; j-- {
			call := c10BoundaryCall(r)
			sb.WriteString([]string{" bnd(" + call + ").", " bndr(X) :- X = " + call + ".", " bndl(Y) :- bnde(_) |> let Y = " + call + ".", " bndc(Z) :- bnde(Z), " + call + " = Z.", " bndp(Z) :- bnde(Z), " + c10BoundaryPredCall(r) + "."}[r.Intn(5)])
		}
		if r.Intn(2) == 0 {
			return c10Case{Kind: "source", Input: []byte(sb.String()), Via: "builtin-boundary-unit"}
		}
		seed = []byte(sb.String())
	case 5:
		// a unit around a generated declaration: descriptor atoms of every kind the library interprets (also the
		// ones it only writes itself), with right and wrong argument counts, bound rows shorter and longer than
		// the arity, inclusion constraints; followed by facts and rules for the declared predicate
		text := c10DeclUnit(r)
		if r.Intn(3) == 0 {
			text = c10LatticeUnit(r)
			if r.Intn(4) > 0 {
				return c10Case{Kind: "source", Input: []byte(text), Via: "lattice-unit"}
			}
		}
		if r.Intn(2) == 0 {
			return c10Case{Kind: "source", Input: []byte(text), Via: "declaration-unit"}
		}
		seed = []byte(text)
	case 6:
		// rules whose transform statements and built-in premises are put together at random from a small pool of
		// variables: group keys defined by later statements, reducers over undefined variables, negated built-ins,
		// variables where a selector constant is expected
		text := c10TransformUnit(r)
		if r.Intn(2) == 0 {
			return c10Case{Kind: "source", Input: []byte(text), Via: "transform-unit"}
		}
		seed = []byte(text)
	default:
		seed = c10Seeds[r.Intn(len(c10Seeds))]
	}
	b, how := c10Mutate(r, seed)
	return c10Case{Kind: "source", Input: b, Via: how}
}

func c10TransformUnit(r *rand.Rand) string {
	vars := []string{"X", "Y", "Z", "W", "_"}
	v := func() string { return vars[r.Intn(len(vars))] }
	term := func() string {
		switch r.Intn(6) {
		case 0:
			return []string{"1", "/a", "\"s\"", "[1, 2]", "{/f: 1}", "[/k: 1]", "fn:pair(1, 2)"}[r.Intn(7)]
		case 1:
			return "fn:plus(" + v() + ", 1)"
		}
		return v()
	}
	var sb strings.Builder
	sb.WriteString("tb(1, 2). tb(2, 3). tl([1, 2]). ts({/f: 1}). tm([/k: 1]).\n")
	for k := r.Intn(3); k > 0; k-- {
		// a safe two-column body; everything else (head, group keys, defined variables, reducer arguments) is drawn
		// from {A, B, K, R}: keys defined by later statements, statements using what nothing defines, redefinitions
		pool := []string{"A", "B", "K", "R"}
		pv := func() string { return pool[r.Intn(len(pool))] }
		head := "tt(" + pv() + ")"
		if r.Intn(2) == 0 {
			head = "tt(" + pv() + ", " + pv() + ")"
		}
		var st []string
		if r.Intn(4) > 0 {
			ks := make([]string, r.Intn(3))
			for i := range ks {
				ks[i] = pv()
				if r.Intn(6) == 0 {
					ks[i] = []string{"fn:plus(" + pv() + ", 1)", "fn:pair(" + pv() + ", " + pv() + ")", "1", "/a", "[" + pv() + "]"}[r.Intn(5)]
				}
			}
			st = append(st, "do fn:group_by("+strings.Join(ks, ", ")+")")
		}
		for j := 1 + r.Intn(2); j > 0; j-- {
			fn := []string{"fn:count()", "fn:sum(" + pv() + ")", "fn:max(" + pv() + ")", "fn:collect(" + pv() + ")", "fn:plus(" + pv() + ", " + pv() + ")", "fn:min(" + pv() + ")", "fn:plus(" + pv() + ", 1)"}[r.Intn(7)]
			st = append(st, "let "+pv()+" = "+fn)
		}
		sb.WriteString(head + " :- tb(A, B) |> " + strings.Join(st, ", ") + ".\n")
	}
	nrand := 1 + r.Intn(3)
	if r.Intn(2) == 0 {
		nrand = 0 // most free-form rules are rejected by analysis and take the whole unit with them
	}
	for k := nrand; k > 0; k-- {
		// the variables the transform will define are drawn first, so that head and group keys can refer to them
		lets := []string{v(), v()}
		hv := func() string {
			if r.Intn(2) == 0 {
				return lets[r.Intn(2)]
			}
			return v()
		}
		head := "th(" + hv() + ")"
		if r.Intn(3) == 0 {
			head = "th(" + hv() + ", " + hv() + ")"
		}
		var body []string
		for j := 1 + r.Intn(3); j > 0; j-- {
			neg := ""
			if r.Intn(4) == 0 {
				neg = "!"
			}
			switch r.Intn(9) {
			case 0:
				body = append(body, neg+"tb("+term()+", "+term()+")")
			case 1:
				body = append(body, neg+"tl("+term()+")")
			case 2:
				body = append(body, neg+":match_field("+term()+", "+term()+", "+term()+")")
			case 3:
				body = append(body, neg+":match_entry("+term()+", "+term()+", "+term()+")")
			case 4:
				body = append(body, neg+":match_cons("+term()+", "+term()+", "+term()+")")
			case 5:
				body = append(body, neg+":list:member("+term()+", "+term()+")")
			case 6:
				body = append(body, neg+":match_pair("+term()+", "+term()+", "+term()+")")
			case 7:
				body = append(body, neg+"ts("+term()+")")
			default:
				body = append(body, term()+" = "+term())
			}
		}
		sb.WriteString(head + " :- " + strings.Join(body, ", "))
		if r.Intn(3) > 0 {
			var st []string
			if r.Intn(3) > 0 {
				n := r.Intn(3)
				ks := make([]string, n)
				for i := range ks {
					ks[i] = hv()
				}
				st = append(st, "do fn:group_by("+strings.Join(ks, ", ")+")")
			}
			for j := r.Intn(3); j > 0; j-- {
				fn := []string{"fn:count()", "fn:sum(" + v() + ")", "fn:max(" + v() + ")", "fn:collect(" + v() + ")", "fn:collect_distinct(" + v() + ")", "fn:plus(" + v() + ", " + v() + ")", "fn:count(" + v() + ")", "fn:avg(" + v() + ")", "fn:pick_any(" + v() + ")", "fn:collect_to_map(" + v() + ", " + v() + ")"}[r.Intn(10)]
				st = append(st, "let "+lets[j%2]+" = "+fn)
			}
			if len(st) > 0 {
				sb.WriteString(" |> " + strings.Join(st, ", "))
			}
		}
		sb.WriteString(".\n")
	}
	return sb.String()
}

var c10Descr = []string{"doc(\"d\")", "doc()", "arg(X, \"first\")", "arg(Q, \"no such\")", "mode('+', '-')", "mode('+')", "mode('-', '-', '+')", "mode('?', '+')", "mode(1)",
	"fundep([X], [Y])", "fundep([Y], [X])", "fundep([X], [Q])", "fundep([], [X])", "fundep(X, Y)", "merge([Y], 'mrg')", "merge([X], 'nosuch')", "merge(Y, mrg)", "deferred()", "synthetic()",
	"extensional()", "reflects(/a)", "reflects(/a/b)", "reflects(\"x\")", "reflects()", "temporal()", "internal:maybe_temporal()", "private()", "external()", "name(/n)", "desugared()",
	"mode('+', '-'), mode('-', '+')", "mode('+', '-'), mode('-', '*')", "mode('-', '-'), mode('x', '+')", "mode('+'), mode('*')", "mode('+', '-', '-'), mode('-', 1, '+')", "mode('?', '?'), mode('', '+')", "unknown_descr(1)", "fundep([X], [Y]), merge([Y], 'mrg')"}

var c10BoundTypes = []string{"/any", "/number", "/string", "/name", "/a", "/a/b", "fn:List(/number)", ".List</string>", "fn:Pair(/name, /number)", "fn:Map(/string, /any)", "fn:Struct(/f, /number)",
	"fn:Struct(/f, /number, fn:opt(/g, /string))", "fn:Union(/a, /number)", "fn:Union()", "fn:Singleton(/a/b)", "fn:Tuple(/number, /number, /number)", "fn:Option(/number)", "fn:List()", "fn:Pair(/number)",
	"fn:Fun(/number, /number)", "fn:Rel(/number)", "fn:Struct(fn:opt())", "fn:Struct(fn:opt(/a))", "fn:Struct(/a)", "fn:Struct(/a, /number, /b)", "fn:Struct(fn:opt(/a, /number, /b))", "fn:Map(/string)", ".Map</string>", ".Pair</number>", ".List<>", ".Struct</a: .List<>>", ".Map<>", ".Pair<>", ".Singleton<>", ".Option<>", ".List</number, /string>", ".Pair</a, /b, /c>", ".Map</string>", ".Pair</number>", ".List<>", ".Union<>", ".Tuple</number>",
	".List<.Pair</number>>", ".Map</string, .List<>>",
	"fn:opt(/a, /number)", "fn:TaggedUnion(/kind)", "fn:TaggedUnion()", "fn:Singleton()", "fn:Singleton(1, 2)", "fn:Tuple()", "fn:Union(fn:Union())", "fn:List(fn:opt(/a, /b))", "X", "1", "\"s\"", "fn:plus(1, 2)", "/time", "/duration", "/float64", "/bytes", "fn:TaggedUnion(/kind, /a, fn:Struct(/f, /number))"}

// c10LatticeUnit: a predicate declared with a functional dependency and a merge predicate, the merge predicate declared
// deferred with a mode, rules that derive two values for one key so that the merge really runs; the descriptor
// arguments are drawn from a pool that also holds column lists that are too long, repeat a column, are empty or name
// a column that does not exist, merge predicates of the wrong arity and modes of the wrong length.
func c10LatticeUnit(r *rand.Rand) string {
	pick := func(xs ...string) string { return xs[r.Intn(len(xs))] }
	ar := 2 + r.Intn(2)
	vars := []string{"K", "V", "W"}[:ar]
	var sb strings.Builder
	src := pick("[K]", "[K]", "[K]", "[K, K, K]", "[]", "[V]", "[K, V]", "[Q]", "K", "[K, K]")
	tgt := pick("[V]", "[V]", "[V]", "[K, V]", "[]", "[K]", "[Q]", "[V, V]", "V")
	mt := pick(tgt, tgt, "[V]", "[K, V]", "[V, W]", "[]")
	fmt.Fprintf(&sb, "Decl lv(%s) descr [fundep(%s, %s), merge(%s, 'lm')].\n", strings.Join(vars, ", "), src, tgt, mt)
	mar := pick("3", "3", "3", "5", "2", "4", "1")
	margs := map[string]string{"1": "A", "2": "A, B", "3": "A, B, C", "4": "A, B, C, D", "5": "A, B, C, D, E"}[mar]
	mode := pick("mode('+', '+', '-')", "mode('+', '+', '-')", "mode('+', '+', '+', '+', '-')", "mode('+', '-')", "mode('-', '-', '-')", "mode('+', '+', '-', '-')", "")
	descr := "deferred()"
	if mode != "" {
		descr = mode + ", deferred()"
	}
	if r.Intn(6) == 0 {
		descr = mode // not deferred
	}
	if descr != "" {
		fmt.Fprintf(&sb, "Decl lm(%s) descr [%s].\n", margs, descr)
	}
	switch mar {
	case "3":
		switch r.Intn(6) {
		case 0:
			sb.WriteString("lm(A, B, C) :- lm(A, B, C).\n") // calls itself with the same arguments
		case 1:
			sb.WriteString("lm(A, B, C) :- A < B, lm(B, A, C).\nlm(A, B, C) :- B <= A, lm(B, A, C).\n")
		default:
			sb.WriteString("lm(A, B, C) :- A < B, C = B.\nlm(A, B, C) :- B <= A, C = A.\n")
		}
	case "5":
		sb.WriteString("lm(A, B, C, D, E) :- A < C, E = C.\nlm(A, B, C, D, E) :- C <= A, E = A.\n")
	case "2":
		sb.WriteString("lm(A, B) :- A < 100, B = A.\n")
	case "4":
		sb.WriteString("lm(A, B, C, D) :- A < B, C = B, D = A.\n")
	default:
		sb.WriteString("lm(A) :- A < 3.\n")
	}
	sb.WriteString("lsrc(/a, 1). lsrc(/a, 2). lsrc(/b, 5). lsrc(/a, 0).\n")
	switch ar {
	case 2:
		sb.WriteString("lv(K, V) :- lsrc(K, V).\n")
		if r.Intn(2) == 0 {
			sb.WriteString("lv(K, W) :- lv(K, V), V < 4 |> let W = fn:plus(V, 1).\n")
		}
	default:
		sb.WriteString("lv(K, V, W) :- lsrc(K, V), lsrc(K, W).\n")
	}
	if r.Intn(3) == 0 {
		sb.WriteString("luse(K) :- lv(" + strings.Join(vars, ", ") + ").\n")
	}
	return sb.String()
}

func c10DeclUnit(r *rand.Rand) string {
	ar := r.Intn(4)
	vars := []string{"X", "Y", "Z"}[:ar]
	head := "dp(" + strings.Join(vars, ", ") + ")"
	var sb strings.Builder
	if r.Intn(4) == 0 {
		sb.WriteString("mrg(A, B, C) :- A < B, C = B. mrg(A, B, C) :- B <= A, C = A.\n")
	}
	colTypes := make([]string, ar) // a declared type per column, so that some facts have the shape the type talks about
	clean := r.Intn(2) == 0 // nothing but one bound row of the right length: the types themselves are what is tried
	sb.WriteString("Decl " + head)
	if r.Intn(3) > 0 && !clean {
		var ds []string
		for k := 1 + r.Intn(3); k > 0; k-- {
			ds = append(ds, c10Descr[r.Intn(len(c10Descr))])
		}
		sb.WriteString(" descr [" + strings.Join(ds, ", ") + "]")
	}
	nrows := r.Intn(3)
	if clean {
		nrows = 1
	}
	for k := nrows; k > 0; k-- {
		n := ar
		switch r.Intn(6) + map[bool]int{true: 2, false: 0}[clean] {
		case 0:
			n = ar + 1 + r.Intn(2)
		case 1:
			if ar > 0 {
				n = ar - 1
			}
		}
		row := make([]string, n)
		for j := range row {
			row[j] = c10BoundTypes[r.Intn(len(c10BoundTypes))]
			if j < ar {
				colTypes[j] = row[j]
			}
		}
		sb.WriteString(" bound [" + strings.Join(row, ", ") + "]")
	}
	if r.Intn(5) == 0 && !clean {
		sb.WriteString(" inclusion [" + []string{"dq(X)", "dp(X)", "dq(X), dq(Y)", "nosuch(X)", ":lt(X, 3)"}[r.Intn(5)] + "]")
	}
	sb.WriteString(".\n")
	if r.Intn(4) == 0 {
		sb.WriteString("Decl dq(X) bound [" + c10BoundTypes[r.Intn(len(c10BoundTypes))] + "].\ndq(1). dq(/a).\n")
	}
	consts := []string{"1", "2", "/a", "/a/b", "\"s\"", "[1, 2]", "fn:pair(/a, 1)", "{/f: 1}", "{/a: 1}", "{}", "{/a: 1, /b: /c}", "[\"k\": 1]", "3.5", "X", "[]", "[{/a: 1}]"}
	for k := r.Intn(4); k > 0; k-- {
		args := make([]string, ar)
		for j := range args {
			args[j] = consts[r.Intn(len(consts))]
			if r.Intn(2) == 0 {
				switch t := colTypes[j]; {
				case strings.Contains(t, "List"):
					args[j] = []string{"[1, 2]", "[]", "[/a]", "[{/a: 1}]"}[r.Intn(4)]
				case strings.Contains(t, "Pair"):
					args[j] = "fn:pair(/a, 1)"
				case strings.Contains(t, "Map"):
					args[j] = []string{"[\"k\": 1]", "[/k: /v]"}[r.Intn(2)]
				case strings.Contains(t, "Struct") || strings.Contains(t, "TaggedUnion"):
					args[j] = []string{"{/a: 1}", "{}", "{/f: 1}", "{/kind: /a, /f: 1}"}[r.Intn(4)]
				case strings.Contains(t, "Tuple"):
					args[j] = "fn:tuple(1, 2, 3)"
				case strings.Contains(t, "Singleton"):
					args[j] = "/a/b"
				}
			}
		}
		fact := "dp(" + strings.Join(args, ", ") + ")"
		switch r.Intn(5) {
		case 0:
			sb.WriteString(fact + " :- dsrc(" + strings.Join(vars, ", ") + ").\n")
		case 1:
			sb.WriteString(head + " :- " + fact + ".\n")
		case 2:
			sb.WriteString(fact + "@[2024-01-01T00:00:00Z, 2024-01-02T00:00:00Z].\n")
		default:
			sb.WriteString(fact + ".\n")
		}
	}
	if r.Intn(3) == 0 {
		sb.WriteString("duse(" + strings.Join(vars, ", ") + ") :- " + head + ".\n")
	}
	return sb.String()
}

func (c10) Decode(raw json.RawMessage) (any, error) {
	var c c10Case
	err := json.Unmarshal(raw, &c)
	return c, err
}

func c10Stage(res *core.Result, name string) {
	res.Ob("reached:"+name, 1)
}

func (c10) Run(cs any) (res core.Result) {
	c := cs.(c10Case)
	res.Key = core.HashKey(string(c.Input), c.Kind)
	res.Ob("kind:"+c.Kind, 1)
	in := string(c.Input)
	stage := "start"
	defer func() {
		if r := recover(); r != nil {
			st := string(debug.Stack())
			res.Violations = append(res.Violations, core.Violation{
				Sig: "panic:" + stage + ":" + core.PanicSite(st),
				Msg: fmt.Sprintf("panic in stage %s: %v\ninput (%s, via %s):\n%q\n%s", stage, r, c.Kind, c.Via, in, core.TrimStack(st)),
			})
		}
	}()
	if c.Kind == "factfile" {
		stage = "simplecolumn.ReadInto"
		st := factstore.NewMultiIndexedArrayInMemoryStore()
		err := factstore.SimpleColumn{}.ReadInto(bytes.NewReader(c.Input), st)
		if err == nil {
			c10Stage(&res, "factfile-read")
			res.NonTrivial = true
		}
		stage = "simplecolumn.lazy"
		open := []func() (*factstore.SimpleColumnStore, error){
			func() (*factstore.SimpleColumnStore, error) { return factstore.NewSimpleColumnStoreFromBytes(c.Input) },
			func() (*factstore.SimpleColumnStore, error) {
				var buf bytes.Buffer
				w := gzip.NewWriter(&buf)
				w.Write(c.Input)
				w.Close()
				return factstore.NewSimpleColumnStoreFromGzipBytes(buf.Bytes())
			},
			func() (*factstore.SimpleColumnStore, error) { return factstore.NewSimpleColumnStoreFromZstdBytes(c.Input) },
		}
		for _, o := range open {
			lazy, err := o()
			if err != nil || lazy == nil {
				continue
			}
			c10Stage(&res, "factfile-lazy-open")
			res.NonTrivial = true
			lazy.EstimateFactCount()
			for _, p := range lazy.ListPredicates() {
				lazy.FactCount(p)
				n := 0
				lazy.GetFacts(ast.NewQuery(p), func(ast.Atom) error {
					n++
					if n > 100000 {
						return fmt.Errorf("enough")
					}
					return nil
				})
			}
		}
		return res
	}
	stage = "ast.Unescape"
	ast.Unescape(in, false)
	ast.Unescape(in, true)
	stage = "parse.PredicateName"
	parse.PredicateName(in)
	stage = "parse.Term"
	if _, err := parse.Term(in); err == nil {
		c10Stage(&res, "term-parsed")
	}
	stage = "parse.LiteralOrFormula"
	parse.LiteralOrFormula(in)
	stage = "parse.Clause"
	if cl, err := parse.Clause(in); err == nil {
		c10Stage(&res, "clause-parsed")
		stage = "Clause.String"
		_ = cl.String()
	}
	stage = "parse.Unit"
	unit, err := parse.Unit(strings.NewReader(in))
	if len(c10Tokenise(in)) >= 3 {
		res.NonTrivial = true
	}
	if err != nil {
		return res
	}
	c10Stage(&res, "unit-parsed")
	res.NonTrivial = true
	stage = "analysis.AnalyzeAndCheckBounds"
	pi, err := analysis.AnalyzeAndCheckBounds([]parse.SourceUnit{unit}, nil, analysis.ErrorForBoundsMismatch)
	if err != nil {
		return res
	}
	c10Stage(&res, "analysis-accepted")
	stage = "engine.EvalProgram"
	store := &countingStore{FactStore: factstore.NewMultiIndexedArrayInMemoryStore(), budget: 200000}
	ts := factstore.NewTemporalStore()
	func() {
		defer func() {
			if r := recover(); r != nil {
				if be, ok := r.(budgetExceeded); ok {
					res.Violate("evaluation-not-bounded", "evaluation under WithCreatedFactLimit(50) created %d facts and was still running\ninput:\n%s", be.adds, in)
					return
				}
				panic(r)
			}
		}()
		if err := engine.EvalProgram(pi, store, engine.WithCreatedFactLimit(50), engine.WithTemporalStore(ts), engine.WithEvaluationTime(evalTime)); err == nil {
			c10Stage(&res, "evaluated")
		} else {
			c10Stage(&res, "evaluation-error")
		}
	}()
	// print what was stored (String() must not panic either)
	stage = "Atom.String"
	var keys []string
	for _, a := range allFacts(store) {
		keys = append(keys, a.String())
	}
	sort.Strings(keys)
	return res
}
