package props

import (
	"encoding/json"
	"fmt"
	"math/rand"
	"strings"

	"codeberg.org/TauCeti/mangle-go/ast"
	"codeberg.org/TauCeti/mangle-go/symbols"

	"verif/internal/canon"
	"verif/internal/core"
	"verif/internal/gen"
)

// C12 — type conformance is sound for membership; bounds are bounds.

type c12Case struct {
	Mode   string      `json:"mode"` // conforms upper lower
	Syntax string      `json:"syntax"`
	Types  []gen.TermV `json:"types"` // conforms: [S,T]; bounds: list
	Extra  []gen.TermV `json:"extra,omitempty"` // types whose members are added to the universe only
	Seed   int64       `json:"seed"`
}

type c12 struct{}

func init() { core.Register(c12{}) }

func (c12) ID() string { return "C12" }
func (c12) Cases(tier string) int {
	if tier == "thorough" {
		return 2000000
	}
	return 200000
}
func (c12) Describe() core.Info {
	return core.Info{
		Level: "exploration",
		Rule: "closed, well-formed type expressions to depth 3 over a small name trie (/foo /foo/a /foobar /foobar/x /str ...), in both concrete syntaxes (function syntax: arity = number of arguments, dot syntax: arity -1), generated as related pairs (T derived from S by widening/narrowing one position, swapping a key type, adding/removing a struct field, toggling opt, wrapping in a union or tagged union) plus unrelated pairs, and as lists for UpperBound/LowerBound. Membership oracle: TypeHandle.HasType over a universe built for the case (type-directed members of every type involved plus near-misses and the boundary pool, ~80 constants). Refuted when SetConforms(S,T) holds and some c has HasType(S,c) and not HasType(T,c); when a member of some Ti is not in UpperBound; when a member of LowerBound is not in some Ti. Non-trivial: conformance affirmed (or bound computed) and >= 3 sampled members of S; distinct by (mode, syntax, types).",
		Assumptions: []string{"membership is the library's own run-time judgement (HasType), as C11/C12 state", "fn:Option has no run-time representation (documented TODO) and is only used as an opaque component"},
	}
}

func c12Mutate(r *rand.Rand, t gen.TermV, depth int) gen.TermV {
	if t.K == "fn" && len(t.Args) > 0 && r.Intn(3) > 0 && depth < 3 {
		out := t
		out.Args = append([]gen.TermV{}, t.Args...)
		i := r.Intn(len(out.Args))
		if t.Name == "fn:Tuple" && r.Intn(2) == 0 {
			// another length: one component more at the end, or (above three) one less
			if len(out.Args) > 3 && r.Intn(2) == 0 {
				out.Args = out.Args[:len(out.Args)-1]
			} else {
				out.Args = append(out.Args, gen.RandTypeV(r, 2))
			}
			return out
		}
		if t.Name == "fn:Struct" || t.Name == "fn:TaggedUnion" {
			// keep labels: mutate a type position or the field list
			switch r.Intn(4) {
			case 0: // drop a field (label+type or opt)
				if len(out.Args) >= 1 && t.Name == "fn:Struct" {
					j := r.Intn(len(out.Args))
					if out.Args[j].K == "fn" && out.Args[j].Name == "fn:opt" {
						out.Args = append(out.Args[:j], out.Args[j+1:]...)
						return out
					}
					// find label index
					for k := 0; k+1 < len(out.Args); k++ {
						if out.Args[k].K == "const" && (k == 0 || out.Args[k-1].K != "const" || true) {
							// required fields appear as label,type pairs; locate pair start
						}
					}
					out = c12DropRequired(out, r)
					return out
				}
			case 1: // add a field
				if t.Name == "fn:Struct" {
					l := gen.ConstT(gen.Name([]string{"/a", "/b", "/c", "/d"}[r.Intn(4)]))
					if !c12HasLabel(out, l.Val.S) {
						if r.Intn(2) == 0 {
							out.Args = append(out.Args, l, gen.RandTypeV(r, 2))
						} else {
							out.Args = append(out.Args, gen.FnT("fn:opt", l, gen.RandTypeV(r, 2)))
						}
						return out
					}
				}
			case 2: // toggle opt
				if t.Name == "fn:Struct" {
					return c12ToggleOpt(out, r)
				}
			}
			// mutate a type position
			for tries := 0; tries < 5; tries++ {
				i = r.Intn(len(out.Args))
				a := out.Args[i]
				if a.K == "fn" && a.Name == "fn:opt" {
					na := a
					na.Args = []gen.TermV{a.Args[0], c12Mutate(r, a.Args[1], depth+1)}
					out.Args[i] = na
					return out
				}
				if a.K == "const" && a.Val.K == "name" && i > 0 && c12IsLabelPos(out, i) {
					continue
				}
				if !(a.K == "const" && c12IsLabelPos(out, i)) {
					out.Args[i] = c12Mutate(r, a, depth+1)
					return out
				}
			}
			return out
		}
		out.Args[i] = c12Mutate(r, out.Args[i], depth+1)
		return out
	}
	// replace this position
	switch r.Intn(7) {
	case 0:
		return gen.ConstT(gen.Name("/any"))
	case 1:
		return gen.FnT("fn:Union", t, gen.RandTypeV(r, 2))
	case 2:
		if t.K == "const" && t.Val.K == "name" {
			// related names: prefix / extension / sibling
			s := t.Val.S
			cands := []string{"/name", "/foo", "/foobar", "/foo/a", "/foobar/x", "/str", "/string", "/number", "/bar"}
			if strings.Count(s, "/") > 1 {
				cands = append(cands, s[:strings.LastIndex(s, "/")])
			}
			cands = append(cands, s+"/sub")
			return gen.ConstT(gen.Name(cands[r.Intn(len(cands))]))
		}
		return gen.RandTypeV(r, 2)
	case 3:
		return gen.FnT("fn:Singleton", gen.ConstT(gen.Name(gen.TrieNames[r.Intn(len(gen.TrieNames))])))
	case 4:
		if t.K == "fn" && t.Name == "fn:Union" && len(t.Args) > 0 {
			return t.Args[r.Intn(len(t.Args))]
		}
		return gen.RandTypeV(r, 2)
	default:
		return gen.RandTypeV(r, 2)
	}
}

func c12IsLabelPos(st gen.TermV, i int) bool {
	if st.Name == "fn:TaggedUnion" {
		return i == 0 || i%2 == 1
	}
	// struct: required args alternate label,type with opt(...) interleaved
	pos := 0
	for k := 0; k <= i && k < len(st.Args); k++ {
		a := st.Args[k]
		if a.K == "fn" && a.Name == "fn:opt" {
			continue
		}
		if k == i {
			return pos%2 == 0
		}
		pos++
	}
	return false
}

func c12HasLabel(st gen.TermV, l string) bool {
	for i, a := range st.Args {
		if a.K == "fn" && a.Name == "fn:opt" && a.Args[0].Val.S == l {
			return true
		}
		if a.K == "const" && c12IsLabelPos(st, i) && a.Val.S == l {
			return true
		}
	}
	return false
}

func c12DropRequired(st gen.TermV, r *rand.Rand) gen.TermV {
	var idx []int
	for i := range st.Args {
		if st.Args[i].K == "const" && c12IsLabelPos(st, i) {
			idx = append(idx, i)
		}
	}
	if len(idx) == 0 {
		return st
	}
	i := idx[r.Intn(len(idx))]
	out := st
	out.Args = append(append([]gen.TermV{}, st.Args[:i]...), st.Args[i+2:]...)
	return out
}

func c12ToggleOpt(st gen.TermV, r *rand.Rand) gen.TermV {
	out := st
	out.Args = nil
	toggled := false
	for i := 0; i < len(st.Args); i++ {
		a := st.Args[i]
		if a.K == "fn" && a.Name == "fn:opt" {
			if !toggled && r.Intn(2) == 0 {
				out.Args = append(out.Args, a.Args[0], a.Args[1])
				toggled = true
			} else {
				out.Args = append(out.Args, a)
			}
			continue
		}
		if i+1 < len(st.Args) {
			if !toggled && r.Intn(2) == 0 {
				out.Args = append(out.Args, gen.FnT("fn:opt", a, st.Args[i+1]))
				toggled = true
			} else {
				out.Args = append(out.Args, a, st.Args[i+1])
			}
			i++
		}
	}
	return out
}

// c12WellFormed is the harness's own (stricter) well-formedness judgement: the
// library's check does not look into optional field types.
func c12WellFormed(t gen.TermV) bool {
	if t.K == "const" {
		return t.Val.K == "name"
	}
	if t.K != "fn" {
		return false
	}
	switch t.Name {
	case "fn:Struct":
		for i := 0; i < len(t.Args); i++ {
			a := t.Args[i]
			if a.K == "fn" && a.Name == "fn:opt" {
				if len(a.Args) != 2 || a.Args[0].K != "const" || !c12WellFormed(a.Args[1]) {
					return false
				}
				continue
			}
			if a.K != "const" || a.Val.K != "name" || i+1 >= len(t.Args) || !c12WellFormed(t.Args[i+1]) {
				return false
			}
			i++
		}
		return true
	case "fn:TaggedUnion":
		if len(t.Args) < 3 || len(t.Args)%2 != 1 || t.Args[0].K != "const" {
			return false
		}
		for i := 1; i+1 < len(t.Args); i += 2 {
			if t.Args[i].K != "const" || t.Args[i+1].K != "fn" || t.Args[i+1].Name != "fn:Struct" || !c12WellFormed(t.Args[i+1]) {
				return false
			}
			if c12HasLabel(t.Args[i+1], t.Args[0].Val.S) {
				return false
			}
		}
		return true
	case "fn:Singleton":
		return len(t.Args) == 1 && t.Args[0].K == "const" && t.Args[0].Val.K == "name"
	case "fn:opt":
		return false
	case "fn:Tuple":
		// the library rejects a top-level tuple type with fewer than 3 components but does not
		// look inside struct fields: such a type is ill-formed wherever it occurs
		if len(t.Args) < 3 {
			return false
		}
	case "fn:Pair", "fn:Map":
		if len(t.Args) != 2 {
			return false
		}
	case "fn:List", "fn:Option":
		if len(t.Args) != 1 {
			return false
		}
	}
	for _, a := range t.Args {
		if !c12WellFormed(a) {
			return false
		}
	}
	return true
}

func (c12) Gen(r *rand.Rand, tier string, i int) any {
	c := c12Case{Seed: r.Int63(), Syntax: "fn"}
	if r.Intn(3) == 0 {
		c.Syntax = "dot"
	}
	switch i % 4 {
	case 0, 1:
		c.Mode = "conforms"
		s := gen.RandTypeV(r, 0)
		var t gen.TermV
		if r.Intn(5) == 0 {
			t = gen.RandTypeV(r, 0)
		} else {
			t = c12Mutate(r, s, 0)
			if r.Intn(3) == 0 {
				t = c12Mutate(r, t, 0)
			}
		}
		if r.Intn(2) == 0 {
			s, t = t, s
		}
		c.Types = []gen.TermV{s, t}
	case 2:
		c.Mode = "upper"
	default:
		c.Mode = "lower"
	}
	if c.Mode != "conforms" {
		n := 1 + r.Intn(4)
		base := gen.RandTypeV(r, 1)
		for k := 0; k < n; k++ {
			if k == 0 || r.Intn(3) == 0 {
				c.Types = append(c.Types, gen.RandTypeV(r, 1))
			} else {
				c.Types = append(c.Types, c12Mutate(r, base, 1))
			}
		}
	}
	for k, t := range c.Types {
		if !c12WellFormed(t) {
			c.Types[k] = gen.RandTypeV(r, 1)
		}
	}
	return c
}

func (c12) Decode(raw json.RawMessage) (any, error) {
	var c c12Case
	err := json.Unmarshal(raw, &c)
	return c, err
}

// c12Build builds the type expression in the chosen concrete syntax.
func c12Build(t gen.TermV, syntax string) ast.BaseTerm {
	b := t.Build()
	if syntax != "dot" {
		return b
	}
	var conv func(x ast.BaseTerm) ast.BaseTerm
	conv = func(x ast.BaseTerm) ast.BaseTerm {
		if f, ok := x.(ast.ApplyFn); ok {
			args := make([]ast.BaseTerm, len(f.Args))
			for i, a := range f.Args {
				args[i] = conv(a)
			}
			return ast.ApplyFn{Function: ast.FunctionSym{Symbol: f.Function.Symbol, Arity: -1}, Args: args}
		}
		return x
	}
	return conv(b)
}

// members generates candidate constants directed by the type expression.
func c12Members(r *rand.Rand, t gen.TermV, depth int, out *[]gen.Val) {
	add := func(v gen.Val) { *out = append(*out, v) }
	one := func(t gen.TermV) gen.Val {
		var tmp []gen.Val
		c12Members(r, t, depth+1, &tmp)
		if len(tmp) == 0 {
			return gen.Num(0)
		}
		return tmp[r.Intn(len(tmp))]
	}
	if depth > 4 {
		add(gen.Num(1))
		return
	}
	switch t.K {
	case "const":
		switch s := t.Val.S; s {
		case "/any":
			add(gen.Num(1))
			add(gen.Str("x"))
			add(gen.Name("/foo/a"))
			add(gen.ListV(gen.Num(1)))
		case "/name":
			add(gen.Name("/foo/a"))
			add(gen.Name("/zzz"))
			add(gen.Name("/foobar/x"))
			add(gen.Name("/foo"))
		case "/number":
			add(gen.Num(0))
			add(gen.Num(-5))
		case "/string":
			add(gen.Str(""))
			add(gen.Str("a"))
		case "/float64":
			add(gen.Float(1.5))
		case "/bytes":
			add(gen.BytesV([]byte("b")))
		case "/time":
			add(gen.TimeV(5))
		case "/duration":
			add(gen.Dur(5))
		default:
			add(gen.Name(s + "/m"))
			add(gen.Name(s + "/m/n"))
			add(gen.Name(s))       // near miss: the prefix itself
			add(gen.Name(s + "x")) // near miss: string prefix only
			add(gen.Name(s + "x/y"))
		}
	case "fn":
		switch t.Name {
		case "fn:List":
			add(gen.ListV())
			add(gen.ListV(one(t.Args[0])))
			add(gen.ListV(one(t.Args[0]), one(t.Args[0])))
			add(gen.ListV(one(t.Args[0]), gen.Str("alien")))
		case "fn:Pair":
			add(gen.PairV(one(t.Args[0]), one(t.Args[1])))
			add(gen.PairV(one(t.Args[0]), one(t.Args[1])))
			add(gen.PairV(one(t.Args[1]), one(t.Args[0])))
		case "fn:Tuple":
			if len(t.Args) >= 2 {
				v := gen.PairV(one(t.Args[len(t.Args)-2]), one(t.Args[len(t.Args)-1]))
				for k := len(t.Args) - 3; k >= 0; k-- {
					v = gen.PairV(one(t.Args[k]), v)
				}
				add(v)
			}
		case "fn:Map":
			add(gen.MapV())
			add(gen.MapV(one(t.Args[0]), one(t.Args[1])))
			k1, k2 := one(t.Args[0]), one(t.Args[0])
			if fmt.Sprint(k1) != fmt.Sprint(k2) {
				add(gen.MapV(k1, one(t.Args[1]), k2, one(t.Args[1])))
			}
			add(gen.MapV(gen.Name("/alien/key"), one(t.Args[1])))
			add(gen.MapV(one(t.Args[0]), gen.BytesV([]byte("alien"))))
		case "fn:Struct":
			var req, opt [][2]gen.TermV
			for i := 0; i < len(t.Args); i++ {
				a := t.Args[i]
				if a.K == "fn" && a.Name == "fn:opt" {
					opt = append(opt, [2]gen.TermV{a.Args[0], a.Args[1]})
					continue
				}
				if i+1 < len(t.Args) {
					req = append(req, [2]gen.TermV{a, t.Args[i+1]})
					i++
				}
			}
			for mask := 0; mask < 1<<len(opt) && mask < 4; mask++ {
				var kv []gen.Val
				for _, f := range req {
					kv = append(kv, *f[0].Val, one(f[1]))
				}
				for oi, f := range opt {
					if mask&(1<<oi) != 0 {
						kv = append(kv, *f[0].Val, one(f[1]))
					}
				}
				add(gen.StructV(kv...))
				// with an extra field
				add(gen.StructV(append(append([]gen.Val{}, kv...), gen.Name("/zextra"), gen.Num(1))...))
			}
			if len(opt) > 0 { // near miss: an optional field is present but holds a value of another kind
				var kv []gen.Val
				for _, f := range req {
					kv = append(kv, *f[0].Val, one(f[1]))
				}
				f := opt[r.Intn(len(opt))]
				kv = append(kv, *f[0].Val, gen.BytesV([]byte("alien")))
				add(gen.StructV(kv...))
			}
			if len(req) > 0 { // missing a required field
				var kv []gen.Val
				for _, f := range req[1:] {
					kv = append(kv, *f[0].Val, one(f[1]))
				}
				add(gen.StructV(kv...))
			}
		case "fn:Union":
			for _, a := range t.Args {
				c12Members(r, a, depth+1, out)
			}
		case "fn:Singleton":
			if t.Args[0].K == "const" {
				add(*t.Args[0].Val)
			}
		case "fn:TaggedUnion":
			tagField := *t.Args[0].Val
			for i := 1; i+1 < len(t.Args); i += 2 {
				st := t.Args[i+1]
				var tmp []gen.Val
				c12Members(r, st, depth+1, &tmp)
				for _, m := range tmp {
					if m.K == "struct" {
						add(gen.StructV(append([]gen.Val{tagField, *t.Args[i].Val}, m.Kids...)...))
					}
				}
				add(gen.StructV(tagField, gen.Name("/not_a_tag")))
			}
		case "fn:Option":
			add(one(t.Args[0]))
		}
	}
}

var c12Boundary = []gen.Val{gen.Num(0), gen.Str("a"), gen.Name("/foo/a"), gen.Name("/foobar/x"), gen.Name("/foo"), gen.Name("/str/s"), gen.Name("/string/q"),
	gen.ListV(), gen.MapV(), gen.StructV(), gen.PairV(gen.Num(1), gen.Num(2)), gen.Float(0.5), gen.Name("/true"), gen.Name("/circle")}

type c12Handle struct {
	expr ast.BaseTerm
	h    symbols.TypeHandle
}

func c12Handles(c c12Case) ([]c12Handle, error) {
	var hs []c12Handle
	for _, t := range c.Types {
		e := c12Build(t, c.Syntax)
		h, err := symbols.NewSetHandle(e)
		if err != nil {
			return nil, err
		}
		hs = append(hs, c12Handle{e, h})
	}
	return hs, nil
}

func c12Universe(c c12Case) []ast.Constant {
	r := rand.New(rand.NewSource(c.Seed))
	var vals []gen.Val
	rounds := 3
	if len(c.Extra) > 0 {
		rounds = 12 // diagnosis runs: make the witness of the enclosing case very likely to reappear
	}
	for _, t := range append(append([]gen.TermV{}, c.Types...), c.Extra...) {
		for k := 0; k < rounds; k++ {
			c12Members(r, t, 0, &vals)
		}
	}
	vals = append(vals, c12Boundary...)
	seen := map[string]bool{}
	var out []ast.Constant
	for _, v := range vals {
		k := func() (c ast.Constant, ok bool) {
			defer func() {
				if recover() != nil {
					ok = false
				}
			}()
			return v.Const(), true
		}
		cc, ok := k()
		if !ok {
			continue
		}
		key := canon.Const(cc)
		if !seen[key] {
			seen[key] = true
			out = append(out, cc)
		}
	}
	return out
}

type c12Fail struct {
	sig, msg string
	witness  ast.Constant
}

func c12Check(c c12Case, res *core.Result) *c12Fail {
	for _, t := range c.Types {
		if !c12WellFormed(t) {
			if res != nil {
				res.Ob("ill_formed_skipped", 1)
			}
			return nil
		}
	}
	hs, err := c12Handles(c)
	if err != nil {
		if res != nil {
			res.Ob("ill_formed_skipped", 1)
		}
		return nil
	}
	uni := c12Universe(c)
	if res != nil {
		res.Ob("universe_constants", len(uni))
	}
	switch c.Mode {
	case "conforms":
		s, t := hs[0], hs[1]
		conf := symbols.SetConforms(nil, s.expr, t.expr)
		members := 0
		for _, k := range uni {
			if s.h.HasType(k) {
				members++
			}
		}
		if res != nil {
			if conf {
				res.Ob("conformance_affirmed", 1)
			} else {
				res.Ob("conformance_denied", 1)
			}
			res.NonTrivial = conf && members >= 3
			if members == 0 {
				res.Ob("left_type_without_sampled_member", 1)
			}
		}
		if !conf {
			return nil
		}
		for _, k := range uni {
			if s.h.HasType(k) && !t.h.HasType(k) {
				return &c12Fail{"conforms", fmt.Sprintf("SetConforms(%v, %v) is affirmed but %v is a member of the left type and not of the right type", s.expr, t.expr, k), k}
			}
		}
	case "upper":
		var exprs []ast.BaseTerm
		for _, h := range hs {
			exprs = append(exprs, h.expr)
		}
		ub := symbols.UpperBound(nil, exprs)
		uh := symbols.TypeHandle{}
		var err error
		if uh, err = symbols.NewSetHandle(ub); err != nil {
			// the empty union is not "well-formed" but is what UpperBound returns for no members
			if a, ok := ub.(ast.ApplyFn); ok && len(a.Args) == 0 {
				for i, h := range hs {
					for _, k := range uni {
						if h.h.HasType(k) {
							return &c12Fail{"upper", fmt.Sprintf("UpperBound(%v) = %v (empty) but %v is a member of argument %d", exprs, ub, k, i), k}
						}
					}
				}
				return nil
			}
			return &c12Fail{"upper:ill-formed", fmt.Sprintf("UpperBound(%v) = %v is not well-formed: %v", exprs, ub, err), ast.Constant{}}
		}
		if res != nil {
			res.NonTrivial = len(hs) >= 2
		}
		for i, h := range hs {
			for _, k := range uni {
				if h.h.HasType(k) && !uh.HasType(k) {
					return &c12Fail{"upper", fmt.Sprintf("UpperBound(%v) = %v does not contain %v, a member of argument %d (%v)", exprs, ub, k, i, h.expr), k}
				}
			}
		}
	case "lower":
		var exprs []ast.BaseTerm
		for _, h := range hs {
			exprs = append(exprs, h.expr)
		}
		lb := symbols.LowerBound(nil, exprs)
		if a, ok := lb.(ast.ApplyFn); ok && a.Function.Symbol == "fn:Union" && len(a.Args) == 0 {
			if res != nil {
				res.Ob("lower_bound_empty", 1)
			}
			return nil // the empty type has no members
		}
		lh, err := symbols.NewSetHandle(lb)
		if err != nil {
			return &c12Fail{"lower:ill-formed", fmt.Sprintf("LowerBound(%v) = %v is not well-formed: %v", exprs, lb, err), ast.Constant{}}
		}
		if res != nil {
			res.NonTrivial = len(hs) >= 2
		}
		for _, k := range uni {
			if !lh.HasType(k) {
				continue
			}
			for i, h := range hs {
				if !h.h.HasType(k) {
					return &c12Fail{"lower", fmt.Sprintf("LowerBound(%v) = %v contains %v, which is not a member of argument %d (%v)", exprs, lb, k, i, h.expr), k}
				}
			}
		}
	}
	return nil
}

// c12In is membership of k in the type t (library's run-time judgement).
func c12In(t gen.TermV, syntax string, k ast.Constant) bool {
	h, err := symbols.NewSetHandle(c12Build(t, syntax))
	if err != nil {
		return false
	}
	return h.HasType(k)
}

func c12Conf(a, b gen.TermV, syntax string) bool {
	return symbols.SetConforms(nil, c12Build(a, syntax), c12Build(b, syntax))
}

// structFields returns label -> (type, optional).
func c12StructFields(st gen.TermV) map[string]gen.TermV {
	m := map[string]gen.TermV{}
	for i := 0; i < len(st.Args); i++ {
		a := st.Args[i]
		if a.K == "fn" && a.Name == "fn:opt" {
			m[a.Args[0].Val.S] = a.Args[1]
			continue
		}
		if i+1 < len(st.Args) && a.K == "const" {
			m[a.Val.S] = st.Args[i+1]
			i++
		}
	}
	return m
}

// c12Variant returns the struct type (with the tag field as a singleton) of the variant whose tag k carries.
func c12Variant(tu gen.TermV, k ast.Constant) (gen.TermV, bool) {
	tagField := tu.Args[0].Val.S
	var tag string
	k.StructValues(func(l, v ast.Constant) error {
		if l.Symbol == tagField && v.Type == ast.NameType {
			tag = v.Symbol
		}
		return nil
	}, func() error { return nil })
	for i := 1; i+1 < len(tu.Args); i += 2 {
		if tu.Args[i].Val.S == tag {
			st := tu.Args[i+1]
			out := gen.FnT("fn:Struct", append([]gen.TermV{tu.Args[0], gen.FnT("fn:Singleton", tu.Args[i])}, st.Args...)...)
			return out, true
		}
	}
	return gen.TermV{}, false
}

// c12Classify follows the witness k (member of s, not of t, although s conforms to t)
// down to the innermost component pair and names the root cause.
func c12Classify(s, t gen.TermV, k ast.Constant, syntax string, depth int) (string, gen.TermV, gen.TermV) {
	bad := func(a, b gen.TermV, x ast.Constant) bool { return c12In(a, syntax, x) && !c12In(b, syntax, x) }
	if depth > 12 {
		return c12Kind(s) + "<:" + c12Kind(t), s, t
	}
	// unions
	if s.K == "fn" && s.Name == "fn:Union" {
		for _, a := range s.Args {
			if bad(a, t, k) && c12Conf(a, t, syntax) {
				return c12Classify(a, t, k, syntax, depth+1)
			}
		}
	}
	if t.K == "fn" && t.Name == "fn:Union" {
		for _, b := range t.Args {
			if c12Conf(s, b, syntax) && bad(s, b, k) {
				return c12Classify(s, b, k, syntax, depth+1)
			}
		}
	}
	// tagged unions: reduce to the variant struct the witness belongs to
	if s.K == "fn" && s.Name == "fn:TaggedUnion" {
		if vs, ok := c12Variant(s, k); ok {
			if t.K == "fn" && t.Name == "fn:TaggedUnion" {
				vt, ok2 := c12Variant(t, k)
				if !ok2 || !c12Conf(vs, vt, syntax) {
					// affirmed only because the right tag was widened to /name
					return "tagged-union-tag-widened-to-name", s, t
				}
				return c12Classify(vs, vt, k, syntax, depth+1)
			}
			if bad(vs, t, k) {
				return c12Classify(vs, t, k, syntax, depth+1)
			}
		}
	}
	if t.K == "fn" && t.Name == "fn:TaggedUnion" && s.K == "fn" && s.Name == "fn:Struct" {
		vt, ok := c12Variant(t, k)
		if !ok || !c12Conf(s, vt, syntax) {
			return "tagged-union-tag-widened-to-name", s, t
		}
		return c12Classify(s, vt, k, syntax, depth+1)
	}
	if s.K == "fn" && t.K == "fn" && s.Name == "fn:Tuple" && t.Name == "fn:Tuple" && len(s.Args) == len(t.Args) && len(s.Args) >= 2 {
		nest := func(x gen.TermV) gen.TermV {
			r := gen.FnT("fn:Pair", x.Args[len(x.Args)-2], x.Args[len(x.Args)-1])
			for j := len(x.Args) - 3; j >= 0; j-- {
				r = gen.FnT("fn:Pair", x.Args[j], r)
			}
			return r
		}
		return c12Classify(nest(s), nest(t), k, syntax, depth+1)
	}
	if s.K == "fn" && t.K == "fn" && s.Name == t.Name {
		switch s.Name {
		case "fn:Pair":
			if a, b, err := k.PairValue(); err == nil && len(s.Args) == 2 && len(t.Args) == 2 {
				if bad(s.Args[0], t.Args[0], a) {
					return c12Classify(s.Args[0], t.Args[0], a, syntax, depth+1)
				}
				if bad(s.Args[1], t.Args[1], b) {
					return c12Classify(s.Args[1], t.Args[1], b, syntax, depth+1)
				}
			}
		case "fn:List":
			var hit *ast.Constant
			k.ListValues(func(e ast.Constant) error {
				if hit == nil && bad(s.Args[0], t.Args[0], e) {
					e2 := e
					hit = &e2
				}
				return nil
			}, func() error { return nil })
			if hit != nil {
				return c12Classify(s.Args[0], t.Args[0], *hit, syntax, depth+1)
			}
		case "fn:Map":
			var keyHit, valHit *ast.Constant
			k.MapValues(func(key, val ast.Constant) error {
				if keyHit == nil && bad(s.Args[0], t.Args[0], key) {
					k2 := key
					keyHit = &k2
				}
				if valHit == nil && bad(s.Args[1], t.Args[1], val) {
					v2 := val
					valHit = &v2
				}
				return nil
			}, func() error { return nil })
			if keyHit != nil {
				if c12Conf(t.Args[0], s.Args[0], syntax) && !c12Conf(s.Args[0], t.Args[0], syntax) {
					return "map-key-contravariant", s, t
				}
				return c12Classify(s.Args[0], t.Args[0], *keyHit, syntax, depth+1)
			}
			if valHit != nil {
				return c12Classify(s.Args[1], t.Args[1], *valHit, syntax, depth+1)
			}
		case "fn:Struct":
			fs, ft := c12StructFields(s), c12StructFields(t)
			var res *[3]any
			k.StructValues(func(l, v ast.Constant) error {
				if res != nil {
					return nil
				}
				b, inT := ft[l.Symbol]
				if !inT || c12In(b, syntax, v) {
					return nil
				}
				a, inS := fs[l.Symbol]
				if !inS {
					res = &[3]any{"struct-optional-field-not-mentioned-on-left", nil, nil}
					return nil
				}
				if c12In(a, syntax, v) {
					res = &[3]any{"", a, b}
					vv := v
					res[0] = &vv
				}
				return nil
			}, func() error { return nil })
			if res != nil {
				if sig, ok := res[0].(string); ok && sig != "" {
					return sig, s, t
				}
				return c12Classify(res[1].(gen.TermV), res[2].(gen.TermV), *(res[0].(*ast.Constant)), syntax, depth+1)
			}
		}
	}
	return c12Kind(s) + "<:" + c12Kind(t), s, t
}

func c12Kind(t gen.TermV) string {
	if t.K == "const" {
		s := t.Val.S
		for _, b := range gen.BaseTypes {
			if s == b {
				return "base(" + s + ")"
			}
		}
		return "prefix"
	}
	if t.K == "fn" {
		return strings.TrimPrefix(t.Name, "fn:")
	}
	return t.K
}

func (c12) Run(cs any) core.Result {
	c := cs.(c12Case)
	var res core.Result
	res.Key = core.HashKey(c.Mode, c.Syntax, fmt.Sprint(c.Types))
	res.Ob("mode:"+c.Mode, 1)
	res.Ob("syntax:"+c.Syntax, 1)
	f := c12Check(c, &res)
	if f == nil {
		return res
	}
	sig := f.sig
	min := c
	named := func(k string) bool { return !strings.Contains(k, "<:") }
	if c.Mode == "conforms" {
		k, ms, mt := c12Classify(c.Types[0], c.Types[1], f.witness, c.Syntax, 0)
		min.Types = []gen.TermV{ms, mt}
		sig = "conforms:" + c.Syntax + ":" + k
		if named(k) {
			sig = "conforms:" + k
		}
	} else if f.witness.Type != 0 || f.witness.Symbol != "" || f.sig == "upper" || f.sig == "lower" {
		var kinds []string
		for _, t := range c.Types {
			kinds = append(kinds, c12Kind(t))
		}
		sig = f.sig + ":" + c.Syntax + ":" + strings.Join(kinds, ",")
		// is the bound wrong because a conformance between two of the (sub)types is unsound for this witness?
		var subs []gen.TermV
		var collect func(t gen.TermV)
		collect = func(t gen.TermV) {
			subs = append(subs, t)
			if t.K == "fn" && t.Name == "fn:Union" {
				for _, a := range t.Args {
					collect(a)
				}
			}
		}
		for _, t := range c.Types {
			collect(t)
		}
	pairs:
		for _, a := range subs {
			for _, b := range subs {
				if c12Conf(a, b, c.Syntax) && c12In(a, c.Syntax, f.witness) && !c12In(b, c.Syntax, f.witness) {
					k, _, _ := c12Classify(a, b, f.witness, c.Syntax, 0)
					if named(k) {
						sig = f.sig + ":via:" + k
						break pairs
					}
				}
			}
		}
	}
	raw, _ := json.Marshal(min)
	res.Violations = append(res.Violations, core.Violation{Sig: sig, Msg: f.msg, Witness: raw})
	return res
}
