package props

import (
	"encoding/json"
	"errors"
	"fmt"
	"math/rand"
	"strings"

	"codeberg.org/TauCeti/mangle-go/engine"

	"verif/internal/canon"
	"verif/internal/core"
	"verif/internal/gen"
	"verif/internal/ref"
)

// C01 — evaluation yields exactly the stratified least model.

type progCase struct {
	Prog           gen.ProgramV `json:"prog"`
	FactsAsClauses bool         `json:"factsAsClauses"`
	Text           string       `json:"text,omitempty"` // printed program, informational
}

type c01 struct{}

func init() { core.Register(c01{}) }

func (c01) ID() string { return "C01" }
func (c01) Cases(tier string) int {
	if tier == "thorough" {
		return 600000
	}
	return 30000
}
func (c01) Describe() core.Info {
	return core.Info{
		Level: "exploration",
		Rule: "typed random programs (2-4 EDB and 2-5 IDB predicates in 3 levels, 1-3 rules each, 1-3 positive atoms per rule incl. linear, non-linear and mutual recursion inside a level, negation on strictly lower levels, comparisons, (in)equalities, guarded fn:plus/fn:mult/fn:list:cons, :match_cons/:list:member, let-transforms, function expressions in heads; base facts either as clauses or preloaded), accepted by both the library's analysis and the reference; every program evaluated on 8 store configurations (simple, indexed, multi-indexed, multi-indexed-array, concurrent x2, merged with a read-only half, teeing over a base half). Oracle 1: canonical set of stored facts == stratified least model computed by the independent reference evaluator (disagreements re-checked by brute-force closure/supportedness over the active domain). Oracle 2 (verif hook): at the start of every incremental round each delta fact is contained in the store, and the store never shrinks. Non-trivial: program has a recursion candidate or negation and the model has >= 3 derived facts; distinct by program+facts.",
		Assumptions: []string{"the reference evaluator implements the documented semantics of the generated fragment", "programs whose reference model exceeds 3000 facts are skipped (counted)"},
		PerCaseTimeout: 120e9,
	}
}

func c01Opts(r *rand.Rand) gen.ProgOpts {
	return gen.ProgOpts{Negation: true, Compare: true, Functions: r.Intn(2) == 0, Lists: r.Intn(3) == 0, Let: true, Do: false, Mix: r.Intn(3) == 0,
		Wildcards: r.Intn(2) == 0, Shuffle: 15, FnInAtoms: true, MoreNegation: r.Intn(4) == 0}
}

func (c01) Gen(r *rand.Rand, tier string, i int) any {
	p := gen.RandProgram(r, c01Opts(r))
	if i%10 == 3 {
		p = gen.RandClosureProgram(r) // non-linear recursion whose later atoms need facts of later rounds
	}
	if i%4 == 1 {
		gen.AddIDBFacts(r, &p) // rule-defined predicates with unit clauses of their own, anywhere in the clause list
	}
	c := progCase{Prog: p, FactsAsClauses: r.Intn(2) == 0}
	c.Text = progText(p)
	return c
}

func (c01) Decode(raw json.RawMessage) (any, error) {
	var c progCase
	err := json.Unmarshal(raw, &c)
	return c, err
}

type evalFail struct {
	sig, msg string
}

// skip reasons are returned as strings; "" = evaluated.
func c01Exec(c progCase, kinds []string, res *core.Result) (skip string, fail *evalFail) {
	rr, err := ref.Eval(refProgram(c.Prog), ref.Options{})
	if err != nil {
		switch {
		case errors.Is(err, ref.ErrUnsafe):
			return "ref-unsafe", nil
		case errors.Is(err, ref.ErrUnstratifiable):
			return "ref-unstratifiable", nil
		case errors.Is(err, ref.ErrTooLarge):
			return "ref-too-large", nil
		case errors.Is(err, ref.ErrEval):
			return "ref-eval-error", nil
		default:
			return "ref-unsupported", nil
		}
	}
	pi, err := analyze(c.Prog, c.FactsAsClauses)
	if err != nil {
		if res != nil {
			m := "other"
			for _, w := range []string{"will not have a value yet", "is not bound", "not bound", "defined previously", "not declared", "arity", "redefines variable", "does not match", "expected", "could not find"} {
				if strings.Contains(err.Error(), w) {
					m = w
					break
				}
			}
			res.Ob("analysis-reject-reason:"+m, 1)
		}
		return "analysis-rejected", nil
	}
	cols := setColPreds(c.Prog)
	want := normSetCols(refSet(rr), cols)
	derived := len(want) - len(c.Prog.Facts)
	if res != nil {
		res.Ob("reference_model_facts", len(want))
		if derived >= 3 {
			res.Ob("programs_with_3+_derived_facts", 1)
		}
	}
	for _, kind := range kinds {
		var pre = baseAtoms(c.Prog)
		if c.FactsAsClauses {
			pre = nil
		}
		if kind == "merged-file-snapshot" || kind == "teeing-snapshot" {
			// a saved, partial result of an earlier evaluation: every other fact of the model is already in the file
			for i, f := range rr.Model.All() {
				if i%2 == 0 {
					pre = append(pre, f.AtomV().Atom())
				}
			}
		}
		store := newEngineStore(kind, pre)
		mon := &roundMonitor{}
		mon.install()
		err := engine.EvalProgram(pi, store)
		uninstallMonitor()
		if res != nil {
			res.Ob("evaluations", 1)
			res.Ob("incremental_rounds_observed", mon.rounds)
			res.Ob("delta_facts_observed", mon.deltaFacts)
			if mon.sameRoundNew >= 2 {
				res.Ob("evaluations_with_2+_facts_first_derived_in_one_later_round", 1)
			}
		}
		if err != nil {
			return "", &evalFail{"engine-error", fmt.Sprintf("store %s: EvalProgram failed on a program the reference evaluates: %v", kind, err)}
		}
		if len(mon.missing) > 0 {
			return "", &evalFail{"hook:delta-fact-not-in-store", fmt.Sprintf("store %s: at the start of an incremental round the delta facts %v are not in the store (delta rules cannot join them with each other)", kind, mon.missing)}
		}
		if mon.shrunk {
			return "", &evalFail{"hook:store-shrunk", fmt.Sprintf("store %s: the store lost facts between rounds", kind)}
		}
		got, dups, nonGround := storeSet(store)
		got = normSetCols(got, cols)
		if len(nonGround) > 0 {
			return "", &evalFail{"non-ground-fact", fmt.Sprintf("store %s holds non-ground atoms %v", kind, nonGround)}
		}
		_ = dups
		miss, extra := canon.Diff(want, got, 6)
		if len(miss) > 0 || len(extra) > 0 {
			sig := "model-differs"
			if len(miss) > 0 && len(extra) == 0 {
				sig = "missing-facts"
			} else if len(extra) > 0 && len(miss) == 0 {
				sig = "extra-facts"
			}
			if hashKeyed(kind) && (hashCollisions(want) || hashCollisions(got) || rawCollisions(pi, pre)) {
				sig = "hash-collision:" + strings.TrimPrefix(kind, "concurrent-")
			}
			msg := fmt.Sprintf("store %s: stored facts differ from the stratified least model: missing %v, unexpected %v", kind, miss, extra)
			return "", &evalFail{sig, msg}
		}
	}
	return "", nil
}

// bruteNote re-checks a disagreement with the brute-force procedure (transform-free programs).
func bruteNote(c progCase) string {
	for _, r := range c.Prog.Rules {
		if len(r.Transforms) > 0 {
			return ""
		}
	}
	rr, err := ref.Eval(refProgram(c.Prog), ref.Options{})
	if err != nil {
		return ""
	}
	msg, err := ref.BruteCheck(refProgram(c.Prog), rr.Model, 3_000_000)
	if err != nil {
		return " [brute-force cross-check of the reference model: not applicable: " + err.Error() + "]"
	}
	if msg != "" {
		return " [REFERENCE INCONSISTENT: " + msg + "]"
	}
	return " [reference model confirmed closed and supported by brute-force enumeration]"
}

// progOrdered: no rule has a positive atom with a function-expression argument that lacks a value at that point.
func progOrdered(c progCase) bool {
	for _, r := range c.Prog.Rules {
		if len(gen.FnAtomsWithoutValue(r.Body)) > 0 {
			return false
		}
	}
	return true
}

func shrinkProg(c progCase, fails func(progCase) bool) progCase {
	if progOrdered(c) {
		// shrinking must not turn the witness into an instance of finding F37 (removing the atom that gives
		// a function argument its value keeps many failures alive for another reason)
		orig := fails
		fails = func(t progCase) bool { return progOrdered(t) && orig(t) }
	}
	min := c
	min.Prog.Rules = core.ShrinkSlice(min.Prog.Rules, func(rs []gen.ClauseV) bool {
		t := min
		t.Prog.Rules = rs
		return fails(t)
	})
	min.Prog.Facts = core.ShrinkSlice(min.Prog.Facts, func(fs []gen.AtomV) bool {
		t := min
		t.Prog.Facts = fs
		return fails(t)
	})
	for ri := range min.Prog.Rules {
		body := min.Prog.Rules[ri].Body
		nb := core.ShrinkSlice(body, func(b []gen.LitV) bool {
			if len(b) == 0 {
				return false
			}
			t := min
			t.Prog.Rules = append([]gen.ClauseV{}, min.Prog.Rules...)
			rc := t.Prog.Rules[ri]
			rc.Body = b
			t.Prog.Rules[ri] = rc
			return fails(t)
		})
		rc := min.Prog.Rules[ri]
		rc.Body = nb
		min.Prog.Rules = append([]gen.ClauseV{}, min.Prog.Rules...)
		min.Prog.Rules[ri] = rc
	}
	min.Text = progText(min.Prog)
	return min
}

func (c01) Run(cs any) core.Result {
	c := cs.(progCase)
	var res core.Result
	res.Key = core.HashKey(progText(c.Prog), fmt.Sprint(c.FactsAsClauses))
	skip, fail := c01Exec(c, engineStoreKinds, &res)
	if skip != "" {
		res.Ob("skipped:"+skip, 1)
		return res
	}
	feats := progFeatures(c.Prog)
	for f := range feats {
		res.Ob("feature:"+f, 1)
	}
	res.NonTrivial = (feats["recursion-candidate"] || feats["negation"]) && res.Obs["programs_with_3+_derived_facts"] > 0
	if fail == nil {
		return res
	}
	sig := fail.sig
	min := c
	if core.ShrinkAllowed(sig) {
		min = shrinkProg(c, func(t progCase) bool {
			s, f := c01Exec(t, engineStoreKinds, nil)
			return s == "" && f != nil && f.sig == sig
		})
	}
	msg := fail.msg
	if _, f := c01Exec(min, engineStoreKinds, nil); f != nil {
		msg = f.msg
	}
	if strings.HasPrefix(sig, "missing") || strings.HasPrefix(sig, "extra") || strings.HasPrefix(sig, "model") {
		msg += bruteNote(min)
	}
	if strings.Contains(msg, "REFERENCE INCONSISTENT") {
		res.Inconclusive = "reference-inconsistent"
		res.Ob("reference_inconsistent", 1)
		sig = "harness:reference-inconsistent"
	}
	raw, _ := json.Marshal(min)
	res.Violations = append(res.Violations, core.Violation{Sig: sig, Msg: msg + "\nminimal program:\n" + min.Text, Witness: raw})
	return res
}
