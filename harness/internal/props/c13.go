package props

import (
	"encoding/json"
	"errors"
	"fmt"
	"math"
	"math/rand"
	"sort"
	"strings"
	"time"

	"codeberg.org/TauCeti/mangle-go/ast"
	"codeberg.org/TauCeti/mangle-go/factstore"

	"verif/internal/canon"
	"verif/internal/core"
	"verif/internal/gen"
)

// C13 — the temporal store answers by the pointwise meaning of intervals.

type c13Bound struct {
	K string `json:"k"` // ts ninf pinf
	T int64  `json:"t,omitempty"`
}

func (b c13Bound) bound() ast.TemporalBound {
	switch b.K {
	case "ninf":
		return ast.NegativeInfinity()
	case "pinf":
		return ast.PositiveInfinity()
	}
	return ast.TemporalBound{Type: ast.TimestampBound, Timestamp: b.T}
}

// value used for comparisons: -inf = MinInt64, +inf = MaxInt64
func (b c13Bound) v() int64 {
	switch b.K {
	case "ninf":
		return math.MinInt64
	case "pinf":
		return math.MaxInt64
	}
	return b.T
}

type c13Op struct {
	Op   string   `json:"op"` // add coalesce query
	Atom int      `json:"atom,omitempty"`
	S    c13Bound `json:"s,omitempty"`
	E    c13Bound `json:"e,omitempty"`
	Pred string   `json:"pred,omitempty"`
}

type c13Case struct {
	Limit int         `json:"limit"` // <=0: no limit configured (default 1000)
	Atoms []gen.AtomV `json:"atoms"`
	Ops   []c13Op     `json:"ops"`
	Grid  []int64     `json:"grid"` // instants queried
}

type c13 struct{}

func init() { core.Register(c13{}) }

func (c13) ID() string { return "C13" }
func (c13) Cases(tier string) int {
	if tier == "thorough" {
		return 60000
	}
	return 1600
}
func (c13) Describe() core.Info {
	return core.Info{
		Level: "exploration",
		Rule: "insertion histories (10-200 adds, any order, equal starts, nested, touching, adjacent at 1ns, unbounded left/right, eternal, point intervals, invalid start>end, 1-6 atoms over 3 predicates, optional per-atom limit 1-8) on a dense 0..40ns timeline plus near-extreme timestamps; after every batch: point query at every grid instant (per predicate pattern, per atom pattern, ContainsAt), range query for all grid ranges incl. unbounded ends, full scan, count; Coalesce at random points followed by the same queries; verif hook walks every interval tree (AVL balance, order, height, maxEnd, size, count). Oracle: brute force over the list of inserted (atom, interval) pairs with closed-interval arithmetic. Non-trivial: some tree rotated (height < size) and an equal-start or adjacent pair was inserted; distinct by history hash.",
		Assumptions: []string{"a duplicate at the interval limit may be answered (false,nil) or (false,err)", "atoms in this workload have pairwise distinct Atom.Hash (hash conflation is C06's finding F8)"},
	}
}

var c13AtomPool = []gen.AtomV{
	{P: "a", Args: []gen.Val{gen.Num(1)}}, {P: "a", Args: []gen.Val{gen.Num(2)}}, {P: "a", Args: []gen.Val{gen.Name("/x")}},
	{P: "b", Args: []gen.Val{gen.Name("/x"), gen.Num(1)}}, {P: "b", Args: []gen.Val{gen.Name("/y"), gen.Num(1)}}, {P: "c", Args: []gen.Val{}},
}

func (c13) Gen(r *rand.Rand, tier string, i int) any {
	c := c13Case{}
	if r.Intn(3) == 0 {
		c.Limit = 1 + r.Intn(8)
	}
	n := 1 + r.Intn(6)
	perm := r.Perm(len(c13AtomPool))
	for _, k := range perm[:n] {
		c.Atoms = append(c.Atoms, c13AtomPool[k])
	}
	width := int64(8 + r.Intn(33))
	far := r.Intn(6) == 0
	for t := int64(-1); t <= width+1; t++ {
		c.Grid = append(c.Grid, t)
	}
	if far {
		c.Grid = append(c.Grid, math.MinInt64+2, math.MinInt64+5, math.MaxInt64-5, math.MaxInt64-2, 1700000000_000000000)
	}
	randT := func() int64 {
		if far && r.Intn(8) == 0 {
			return []int64{math.MinInt64 + 3, math.MinInt64 + 5, math.MaxInt64 - 5, math.MaxInt64 - 3, 1700000000_000000000}[r.Intn(5)]
		}
		return r.Int63n(width + 1)
	}
	nOps := 10 + r.Intn(60)
	if r.Intn(4) == 0 {
		nOps = 60 + r.Intn(140)
	}
	var last *c13Op
	for j := 0; j < nOps; j++ {
		x := r.Intn(100)
		switch {
		case x < 80:
			op := c13Op{Op: "add", Atom: r.Intn(len(c.Atoms))}
			if r.Intn(3) > 0 {
				op.Atom = 0 // concentrate on one atom so trees get deep
			}
			s := randT()
			shape := r.Intn(20)
			switch {
			case shape < 8:
				e := s + r.Int63n(6)
				if e < s {
					e = s
				}
				op.S, op.E = c13Bound{K: "ts", T: s}, c13Bound{K: "ts", T: e}
			case shape < 10: // point
				op.S, op.E = c13Bound{K: "ts", T: s}, c13Bound{K: "ts", T: s}
			case shape < 12 && last != nil && last.E.K == "ts" && last.E.T < math.MaxInt64-10: // adjacent or touching to previous
				d := int64(r.Intn(3)) // 0 touching, 1 adjacent, 2 gap
				st := last.E.T + d
				op.Atom = last.Atom
				op.S, op.E = c13Bound{K: "ts", T: st}, c13Bound{K: "ts", T: st + r.Int63n(4)}
			case shape < 14 && last != nil && last.S.K == "ts": // equal start
				op.Atom = last.Atom
				op.S = last.S
				op.E = c13Bound{K: "ts", T: last.S.T + r.Int63n(8)}
			case shape < 15:
				op.S, op.E = c13Bound{K: "ninf"}, c13Bound{K: "ts", T: s}
			case shape < 16:
				op.S, op.E = c13Bound{K: "ts", T: s}, c13Bound{K: "pinf"}
			case shape < 17:
				op.S, op.E = c13Bound{K: "ninf"}, c13Bound{K: "pinf"}
			case shape < 18 && last != nil: // exact duplicate
				op = *last
			case shape < 19: // invalid
				op.S, op.E = c13Bound{K: "ts", T: s + 1 + r.Int63n(3)}, c13Bound{K: "ts", T: s}
			default: // wide
				e := s + r.Int63n(width+1)
				op.S, op.E = c13Bound{K: "ts", T: s}, c13Bound{K: "ts", T: e}
			}
			c.Ops = append(c.Ops, op)
			cp := op
			last = &cp
		case x < 90:
			c.Ops = append(c.Ops, c13Op{Op: "query"})
		default:
			c.Ops = append(c.Ops, c13Op{Op: "coalesce", Pred: c.Atoms[r.Intn(len(c.Atoms))].P})
		}
	}
	c.Ops = append(c.Ops, c13Op{Op: "query"})
	return c
}

func (c13) Decode(raw json.RawMessage) (any, error) {
	var c c13Case
	err := json.Unmarshal(raw, &c)
	return c, err
}

type c13Pair struct {
	atom int
	s, e c13Bound
}

func c13IvKey(i ast.Interval) string {
	b := func(t ast.TemporalBound) string {
		switch t.Type {
		case ast.TimestampBound:
			return fmt.Sprintf("t%d", t.Timestamp)
		case ast.NegativeInfinityBound:
			return "-inf"
		case ast.PositiveInfinityBound:
			return "+inf"
		}
		return fmt.Sprintf("?%d", t.Type)
	}
	return "[" + b(i.Start) + "," + b(i.End) + "]"
}

func (p c13Pair) key(atoms []ast.Atom) string {
	return canon.Atom(atoms[p.atom]) + c13IvKey(ast.Interval{Start: p.s.bound(), End: p.e.bound()})
}

type c13Fail struct {
	step int
	sig  string
	msg  string
}

type ivl struct{ s, e int64 }

// normalise merges overlapping or adjacent (1ns) closed intervals.
func normalise(xs []ivl) []ivl {
	if len(xs) == 0 {
		return nil
	}
	ys := append([]ivl{}, xs...)
	sort.Slice(ys, func(i, j int) bool { return ys[i].s < ys[j].s })
	out := []ivl{ys[0]}
	for _, x := range ys[1:] {
		l := &out[len(out)-1]
		if l.e == math.MaxInt64 || x.s <= l.e+1 {
			if x.e > l.e {
				l.e = x.e
			}
		} else {
			out = append(out, x)
		}
	}
	return out
}

func c13Exec(c c13Case, res *core.Result) *c13Fail {
	var opts []factstore.TemporalStoreOption
	if c.Limit > 0 {
		opts = append(opts, factstore.WithMaxIntervalsPerAtom(c.Limit))
	}
	st := factstore.NewTemporalStore(opts...)
	atoms := make([]ast.Atom, len(c.Atoms))
	for i, a := range c.Atoms {
		atoms[i] = a.Atom()
	}
	limit := c.Limit
	if limit <= 0 {
		limit = factstore.DefaultMaxIntervalsPerAtom
	}
	var model []c13Pair
	perAtom := map[int]int{}
	have := map[string]bool{}
	shapes := map[string]bool{}
	rotated, special := false, false

	check := func(step int) *c13Fail {
		stats, err := st.VerifCheck()
		if err != nil {
			return &c13Fail{step, "tree-invariant", fmt.Sprintf("step %d: structural invariant broken: %v", step, err)}
		}
		for _, s := range stats {
			shapes[s.Shape] = true
			if s.Size >= 3 && s.Height < s.Size {
				rotated = true
			}
			if len(s.Loose) > 0 {
				res.Ob("performance_only_tree_deviations", len(s.Loose))
			}
		}
		res.Ob("tree_walks", len(stats))
		if got := st.EstimateFactCount(); got != len(model) {
			return &c13Fail{step, "count", fmt.Sprintf("step %d: EstimateFactCount = %d, %d pairs stored", step, got, len(model))}
		}
		// patterns: each predicate all-variables, each atom exactly
		type pat struct {
			q     ast.Atom
			match func(int) bool
		}
		var pats []pat
		seenPred := map[ast.PredicateSym]bool{}
		for i, a := range atoms {
			i := i
			if !seenPred[a.Predicate] {
				seenPred[a.Predicate] = true
				p := a.Predicate
				pats = append(pats, pat{ast.NewQuery(p), func(k int) bool { return atoms[k].Predicate == p }})
			}
			pats = append(pats, pat{a, func(k int) bool { return k == i }})
		}
		cmp := func(what string, want map[string]bool, got map[string]int) *c13Fail {
			for k, n := range got {
				if n > 1 {
					return &c13Fail{step, what + ":duplicate", fmt.Sprintf("step %d: %s yielded %s %d times", step, what, k, n)}
				}
				if !want[k] {
					return &c13Fail{step, what + ":extra", fmt.Sprintf("step %d: %s yielded %s which does not qualify", step, what, k)}
				}
			}
			for k := range want {
				if got[k] == 0 {
					return &c13Fail{step, what + ":missing", fmt.Sprintf("step %d: %s missed %s", step, what, k)}
				}
			}
			return nil
		}
		collect := func(got map[string]int) func(factstore.TemporalFact) error {
			return func(tf factstore.TemporalFact) error {
				got[canon.Atom(tf.Atom)+c13IvKey(tf.Interval)]++
				return nil
			}
		}
		for _, p := range pats {
			// full scan
			want := map[string]bool{}
			for _, m := range model {
				if p.match(m.atom) {
					want[m.key(atoms)] = true
				}
			}
			got := map[string]int{}
			st.GetAllFacts(p.q, collect(got))
			if f := cmp("scan", want, got); f != nil {
				f.msg += fmt.Sprintf(" (GetAllFacts(%v))", p.q)
				return f
			}
			for _, t := range c.Grid {
				want := map[string]bool{}
				for _, m := range model {
					if p.match(m.atom) && m.s.v() <= t && t <= m.e.v() {
						want[m.key(atoms)] = true
					}
				}
				got := map[string]int{}
				st.GetFactsAt(p.q, time.Unix(0, t), collect(got))
				if f := cmp("point", want, got); f != nil {
					f.msg += fmt.Sprintf(" (GetFactsAt(%v, %d))", p.q, t)
					return f
				}
				res.Ob("point_queries", 1)
			}
		}
		for i, a := range atoms {
			for _, t := range c.Grid {
				want := false
				for _, m := range model {
					if m.atom == i && m.s.v() <= t && t <= m.e.v() {
						want = true
					}
				}
				if got := st.ContainsAt(a, time.Unix(0, t)); got != want {
					return &c13Fail{step, "containsAt", fmt.Sprintf("step %d: ContainsAt(%v, %d) = %v, model %v", step, a, t, got, want)}
				}
			}
		}
		// range queries over the grid (subsampled when large) with unbounded ends
		g := c.Grid
		stride := 1
		if len(g) > 24 {
			stride = 2
		}
		p0 := pats[0]
		for ai := -1; ai < len(g); ai += stride {
			for bi := ai; bi <= len(g); bi += stride {
				if bi < 0 {
					continue
				}
				var lo, hi c13Bound
				if ai < 0 {
					lo = c13Bound{K: "ninf"}
				} else {
					lo = c13Bound{K: "ts", T: g[ai]}
				}
				if bi >= len(g) {
					hi = c13Bound{K: "pinf"}
				} else {
					hi = c13Bound{K: "ts", T: g[bi]}
				}
				if lo.v() > hi.v() {
					continue
				}
				want := map[string]bool{}
				for _, m := range model {
					if p0.match(m.atom) && m.s.v() <= hi.v() && lo.v() <= m.e.v() {
						want[m.key(atoms)] = true
					}
				}
				got := map[string]int{}
				st.GetFactsDuring(p0.q, ast.Interval{Start: lo.bound(), End: hi.bound()}, collect(got))
				if f := cmp("range", want, got); f != nil {
					f.msg += fmt.Sprintf(" (GetFactsDuring(%v, [%v,%v]))", p0.q, lo.v(), hi.v())
					return f
				}
				res.Ob("range_queries", 1)
			}
		}
		return nil
	}

	for i, op := range c.Ops {
		switch op.Op {
		case "add":
			a := atoms[op.Atom]
			iv := ast.Interval{Start: op.S.bound(), End: op.E.bound()}
			added, err := st.Add(a, iv)
			p := c13Pair{op.Atom, op.S, op.E}
			k := p.key(atoms)
			invalid := op.S.K == "ts" && op.E.K == "ts" && op.S.T > op.E.T
			switch {
			case invalid:
				if err == nil || added {
					return &c13Fail{i, "add:invalid-accepted", fmt.Sprintf("step %d: Add(%v,%s) with start > end returned (%v,%v)", i, a, c13IvKey(iv), added, err)}
				}
			case have[k]:
				if added {
					return &c13Fail{i, "add:duplicate-accepted", fmt.Sprintf("step %d: Add(%v,%s) returned true for an exact duplicate", i, a, c13IvKey(iv))}
				}
				if err != nil && !(perAtom[op.Atom] >= limit && errors.Is(err, factstore.ErrIntervalLimitExceeded)) {
					return &c13Fail{i, "add:duplicate-error", fmt.Sprintf("step %d: Add(%v,%s) duplicate returned error %v", i, a, c13IvKey(iv), err)}
				}
			case perAtom[op.Atom] >= limit:
				if err == nil || added || !errors.Is(err, factstore.ErrIntervalLimitExceeded) {
					return &c13Fail{i, "add:limit-not-enforced", fmt.Sprintf("step %d: Add(%v,%s) with %d intervals stored and limit %d returned (%v,%v)", i, a, c13IvKey(iv), perAtom[op.Atom], limit, added, err)}
				}
				res.Ob("limit_refusals", 1)
			default:
				if err != nil || !added {
					return &c13Fail{i, "add:refused", fmt.Sprintf("step %d: Add(%v,%s) new pair within limit (%d of %d) returned (%v,%v)", i, a, c13IvKey(iv), perAtom[op.Atom], limit, added, err)}
				}
				// note special shapes
				for _, m := range model {
					if m.atom == op.Atom && m.s.K == "ts" && op.S.K == "ts" {
						if m.s.T == op.S.T || (m.e.K == "ts" && m.e.T != math.MaxInt64 && m.e.T+1 == op.S.T) {
							special = true
						}
					}
				}
				model = append(model, p)
				have[k] = true
				perAtom[op.Atom]++
			}
		case "query":
			if f := check(i); f != nil {
				return f
			}
		case "coalesce":
			pred := ast.PredicateSym{Symbol: op.Pred}
			for _, a := range atoms {
				if a.Predicate.Symbol == op.Pred {
					pred = a.Predicate
				}
			}
			before := map[int][]ivl{}
			for _, m := range model {
				if atoms[m.atom].Predicate == pred {
					before[m.atom] = append(before[m.atom], ivl{m.s.v(), m.e.v()})
				}
			}
			if err := st.Coalesce(pred); err != nil {
				return &c13Fail{i, "coalesce:error", fmt.Sprintf("step %d: Coalesce(%v) error %v", i, pred, err)}
			}
			res.Ob("coalesces", 1)
			// re-read the predicate's pairs; they become the model
			var kept []c13Pair
			for _, m := range model {
				if atoms[m.atom].Predicate != pred {
					kept = append(kept, m)
				}
			}
			after := map[int][]ivl{}
			var bad *c13Fail
			dupe := map[string]bool{}
			st.GetAllFacts(ast.NewQuery(pred), func(tf factstore.TemporalFact) error {
				idx := -1
				for k, a := range atoms {
					if canon.Atom(a) == canon.Atom(tf.Atom) {
						idx = k
					}
				}
				if idx < 0 {
					bad = &c13Fail{i, "coalesce:alien-atom", fmt.Sprintf("step %d: after Coalesce the store holds %v", i, tf.Atom)}
					return nil
				}
				toB := func(b ast.TemporalBound) c13Bound {
					switch b.Type {
					case ast.NegativeInfinityBound:
						return c13Bound{K: "ninf"}
					case ast.PositiveInfinityBound:
						return c13Bound{K: "pinf"}
					}
					return c13Bound{K: "ts", T: b.Timestamp}
				}
				p := c13Pair{idx, toB(tf.Interval.Start), toB(tf.Interval.End)}
				if dupe[p.key(atoms)] {
					bad = &c13Fail{i, "coalesce:duplicate", fmt.Sprintf("step %d: after Coalesce %v%s is stored twice", i, tf.Atom, c13IvKey(tf.Interval))}
				}
				dupe[p.key(atoms)] = true
				kept = append(kept, p)
				after[idx] = append(after[idx], ivl{p.s.v(), p.e.v()})
				return nil
			})
			if bad != nil {
				return bad
			}
			for idx := range atoms {
				if atoms[idx].Predicate != pred {
					continue
				}
				nb, na := normalise(before[idx]), normalise(after[idx])
				if fmt.Sprint(nb) != fmt.Sprint(na) {
					return &c13Fail{i, "coalesce:instants-changed", fmt.Sprintf("step %d: Coalesce changed the instants at which %v holds: before %v after %v", i, atoms[idx], nb, na)}
				}
				var fin []ivl
				for _, x := range after[idx] {
					if x.s != math.MinInt64 && x.e != math.MaxInt64 {
						fin = append(fin, x)
					}
				}
				sort.Slice(fin, func(a, b int) bool { return fin[a].s < fin[b].s })
				for k := 1; k < len(fin); k++ {
					if fin[k].s <= fin[k-1].e+1 {
						return &c13Fail{i, "coalesce:not-disjoint", fmt.Sprintf("step %d: after Coalesce %v keeps finite intervals %v and %v (overlapping or adjacent)", i, atoms[idx], fin[k-1], fin[k])}
					}
				}
			}
			model = kept
			have = map[string]bool{}
			perAtom = map[int]int{}
			for _, m := range model {
				have[m.key(atoms)] = true
				perAtom[m.atom]++
			}
			if f := check(i); f != nil {
				f.sig = "after-coalesce:" + f.sig
				return f
			}
		}
	}
	res.Ob("distinct_tree_shapes_per_case_sum", len(shapes))
	if rotated {
		res.Ob("cases_with_rotation", 1)
	}
	if special {
		res.Ob("cases_with_equal_start_or_adjacent", 1)
	}
	res.NonTrivial = rotated && special
	return nil
}

func (c13) Run(cs any) core.Result {
	c := cs.(c13Case)
	var res core.Result
	fail := c13Exec(c, &res)
	res.Key = core.HashKey(fmt.Sprint(c.Limit, c.Atoms, c.Ops))
	if fail == nil {
		return res
	}
	sig := fail.sig
	min := c
	min.Ops = core.ShrinkSlice(c.Ops[:minInt(fail.step+1, len(c.Ops))], func(ops []c13Op) bool {
		t := c
		t.Ops = ops
		var scratch core.Result
		f := c13Exec(t, &scratch)
		return f != nil && f.sig == sig
	})
	var scratch core.Result
	f2 := c13Exec(min, &scratch)
	msg := fail.msg
	if f2 != nil {
		msg = f2.msg
	}
	raw, _ := json.Marshal(min)
	var sb strings.Builder
	for _, op := range min.Ops {
		if op.Op == "add" {
			fmt.Fprintf(&sb, " add(%d,[%d,%d])", op.Atom, op.S.v(), op.E.v())
		} else {
			fmt.Fprintf(&sb, " %s", op.Op)
		}
	}
	res.Violations = append(res.Violations, core.Violation{Sig: sig, Msg: msg + "\nminimal history:" + sb.String(), Witness: raw})
	return res
}
