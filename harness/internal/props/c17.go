package props

import (
	"time"
	"encoding/json"
	"errors"
	"fmt"
	"math/rand"
	"strings"

	"codeberg.org/TauCeti/mangle-go/analysis"
	"codeberg.org/TauCeti/mangle-go/ast"
	"codeberg.org/TauCeti/mangle-go/engine"
	"codeberg.org/TauCeti/mangle-go/factstore"
	"codeberg.org/TauCeti/mangle-go/parse"

	"verif/internal/canon"
	"verif/internal/core"
	"verif/internal/gen"
	"verif/internal/ref"
)

// C17 — a fact limit turns divergence into an error, never a silent partial result.

type c17Case struct {
	Prog  gen.ProgramV `json:"prog"`
	Limit int          `json:"limit"`
	Kind  string       `json:"kind"`
	Text  string       `json:"text,omitempty"`
	// Lattice != nil: a counting chain on a predicate declared with a functional dependency and a
	// merge predicate (facts are merged per key instead of added); Prog is unused.
	Lattice *c17Lattice `json:"lattice,omitempty"`
	// Opts: evaluation options that have nothing to do with the limit and must not change how it is reported:
	// "now" (WithNowMarker), "temporal" (WithTemporalStore), "evaltime" (WithEvaluationTime), "deterministic" (WithDeterministicOrder)
	Opts []string `json:"opts,omitempty"`
}

func c17EvalOptions(c c17Case) []engine.EvalOption {
	out := []engine.EvalOption{engine.WithCreatedFactLimit(c.Limit)}
	for _, o := range c.Opts {
		switch o {
		case "now":
			out = append(out, engine.WithNowMarker())
		case "temporal":
			out = append(out, engine.WithTemporalStore(factstore.NewTemporalStore()))
		case "evaltime":
			out = append(out, engine.WithEvaluationTime(evalTime))
		case "deterministic":
			out = append(out, engine.WithDeterministicOrder())
		}
	}
	return out
}

func c17RandOpts(r *rand.Rand) []string {
	if r.Intn(4) > 0 {
		return nil
	}
	var out []string
	for _, o := range []string{"now", "temporal", "evaltime", "deterministic"} {
		if r.Intn(2) == 0 {
			out = append(out, o)
		}
	}
	return out
}

type c17Lattice struct {
	Chain    int  `json:"chain"`    // keys 0..Chain are derived; 0 = no guard (divergent)
	TwoRules bool `json:"twoRules"` // a second rule derives a smaller value for the same key (the merge keeps the larger)
	Plain    bool `json:"plain"`    // control: the same program without the merge declaration
	Pad      int  `json:"pad,omitempty"` // extra facts pad(1..Pad) in the program text: they use up part of the limit before the chain's stratum starts
	Ascend   bool `json:"ascend"`   // the rule raises the value of the SAME key (an ascending chain in the lattice: one stored fact, replaced every round)
	Descend  bool `json:"descend,omitempty"` // the rule LOWERS the value of the same key: under the merge every derived fact is absorbed by the stored one (fixpoint after one round); without the declaration it is an ordinary chain
}

type c17 struct{}

func init() { core.Register(c17{}) }

func (c17) ID() string { return "C17" }
func (c17) Cases(tier string) int {
	if tier == "thorough" {
		return 300000
	}
	return 8000
}
func (c17) Describe() core.Info {
	return core.Info{
		Level: "exploration",
		Rule: "typed random programs WITHOUT termination guards (unbounded fn:plus / fn:mult / fn:list:cons through recursion) mixed with terminating ones (a third of them with aggregating rules, whose input relations may be larger than the limit), base facts preloaded, evaluated with WithCreatedFactLimit(L), L in {1,2,5,20,100} (a quarter of the cases add a random subset of the options that have nothing to do with the limit: WithNowMarker, WithTemporalStore, WithEvaluationTime, WithDeterministicOrder), on every writable store kind behind a counting wrapper; every 10th case is a counting chain level(N,D) (guarded to 3..4000 keys or unguarded, one or two rules) on a predicate declared with fundep + merge (facts merged per key through a deferred lattice predicate), or the same chain without the declaration as control: one fresh key per round (or, in a third of them, one key whose value rises every round: an ascending chain in the lattice, a single stored fact replaced again and again; or, in a quarter, one key whose derived value FALLS every round, so that under the merge every derived fact is absorbed and the evaluation has to stop after one round whatever the limit), so only a limit on created facts can stop it; lookups (GetFacts/Contains) of these chain runs are bounded by 100B+1000, which catches rounds that go on without creating anything; 0-3 further facts pad(i) are written in the program and in half of these cases L is exactly (or one more than) the number of facts written in the program, i.e. the budget is used up when the chain's stratum starts; a nil error there requires every level(n,n) up to the guard. Decided on logical steps: the wrapper aborts the run when successful Adds exceed B (or when Add was called more than 8B+200 times, successful or not: a run that keeps offering facts without the store growing does not return) = (rules+3)*(L+1)*(strata+1) (violation: unbounded creation); a nil error requires the store to equal the reference model, which is computed with a bound of (rules+3)*(L+1)+50 derived facts (reference larger => the engine must have returned an error, because its own per-join/per-round/per-store checks cap what an error-free run can create). Non-trivial: program diverges (reference exceeds its bound) or its number of derived facts is within +-3 of L; distinct by (program, L, store).",
		Assumptions: []string{"an error on a small terminating program is not judged (the property does not exclude it); it is counted", "B is derived from the per-join, per-round and per-store limit checks of the loop and is deliberately generous"},
		PerCaseTimeout: 120e9,
	}
}

func (c17) Gen(r *rand.Rand, tier string, i int) any {
	o := gen.ProgOpts{Negation: r.Intn(3) == 0, Compare: r.Intn(2) == 0, Functions: true, Lists: r.Intn(2) == 0, Let: r.Intn(3) == 0,
		Unguarded: r.Intn(4) > 0, Wildcards: false, FnInAtoms: true, MaxIDB: 4, Do: r.Intn(3) == 0, DoPercent: 60}
	if i%50 == 7 {
		// the canonical divergent list builder: p([]). p(Y) :- p(X), Y = fn:list:cons(k, X).
		k := gen.ConstT(gen.Num(int64(r.Intn(6))))
		y := gen.VarT("Y")
		fn := gen.FnT("fn:list:cons", k, gen.VarT("X"))
		p := gen.ProgramV{
			Preds: []gen.PredSig{{Name: "p", Sorts: []string{"list"}, IDB: true, Level: 1}, {Name: "e", Sorts: []string{"list"}}},
			Facts: []gen.AtomV{{P: "e", Args: []gen.Val{gen.ListV()}}},
			Rules: []gen.ClauseV{
				{Head: gen.LitV{K: "atom", Pred: "p", Args: []gen.TermV{gen.VarT("X")}}, Body: []gen.LitV{{K: "atom", Pred: "e", Args: []gen.TermV{gen.VarT("X")}}}},
				{Head: gen.LitV{K: "atom", Pred: "p", Args: []gen.TermV{y}}, Body: []gen.LitV{{K: "atom", Pred: "p", Args: []gen.TermV{gen.VarT("X")}}, {K: "eq", L: &y, R: &fn}}},
			},
		}
		return c17Case{Prog: p, Limit: []int{5, 20, 50, 100}[r.Intn(4)], Kind: engineStoreKinds[r.Intn(len(engineStoreKinds))], Text: progText(p), Opts: c17RandOpts(r)}
	}
	if i%10 == 3 {
		l := &c17Lattice{Chain: []int{0, 3, 10, 30, 150, 1000, 4000}[r.Intn(7)], TwoRules: r.Intn(2) == 0, Plain: r.Intn(5) == 0, Ascend: r.Intn(3) == 0, Pad: r.Intn(4)}
		if r.Intn(4) == 0 {
			l.Ascend, l.Descend = false, true
		}
		c := c17Case{Limit: []int{1, 2, 5, 20, 100}[r.Intn(5)], Kind: engineStoreKinds[r.Intn(len(engineStoreKinds))], Lattice: l}
		if r.Intn(2) == 0 {
			// boundary: the facts written in the program use up the limit exactly (or all but one) before the chain starts
			c.Limit = 1 + l.Pad + r.Intn(2)
		}
		c.Text = c17LatticeText(*l)
		c.Opts = c17RandOpts(r)
		return c
	}
	p := gen.RandProgram(r, o)
	return c17Case{Prog: p, Limit: []int{1, 2, 5, 20, 100}[r.Intn(5)], Kind: engineStoreKinds[r.Intn(len(engineStoreKinds))], Text: progText(p), Opts: c17RandOpts(r)}
}

func (c17) Decode(raw json.RawMessage) (any, error) {
	var c c17Case
	err := json.Unmarshal(raw, &c)
	return c, err
}

type countingStore struct {
	factstore.FactStore
	adds   int
	budget int
	tries  int // calls of Add, successful or not
	// lookups counts GetFacts and Contains calls; lookupBudget > 0 bounds them (used for the lattice chains, where the
	// number of rounds is at most the number of created facts and a round makes a handful of lookups): a run that
	// keeps reading the store without ever offering it a fact does not return either
	lookups      int
	lookupBudget int
}

type lookupsExceeded struct{ lookups int }

func (c *countingStore) look() {
	c.lookups++
	if c.lookupBudget > 0 && c.lookups > c.lookupBudget {
		panic(lookupsExceeded{c.lookups})
	}
}

func (c *countingStore) GetFacts(a ast.Atom, f func(ast.Atom) error) error {
	c.look()
	return c.FactStore.GetFacts(a, f)
}

func (c *countingStore) Contains(a ast.Atom) bool {
	c.look()
	return c.FactStore.Contains(a)
}

type budgetExceeded struct{ adds int }

// triesExceeded: the engine keeps offering facts to the store although (almost) none is new. The engine offers a
// fact only after Contains said it is absent, so tries stay close to the successful adds unless the store's
// Contains and Add disagree; the bound is 8*B+200.
type triesExceeded struct{ tries int }

func (c *countingStore) Add(a ast.Atom) bool {
	c.tries++
	if c.tries > 8*c.budget+200 {
		panic(triesExceeded{c.tries})
	}
	ok := c.FactStore.Add(a)
	if ok {
		c.adds++
		if c.adds > c.budget {
			panic(budgetExceeded{c.adds})
		}
	}
	return ok
}

type countingRemoveStore struct{ *countingStore }

func (c countingRemoveStore) Remove(a ast.Atom) bool {
	if rm, ok := c.FactStore.(factstore.FactStoreWithRemove); ok {
		return rm.Remove(a)
	}
	return false
}

func c17LatticeText(l c17Lattice) string {
	guard := ""
	if l.Chain > 0 {
		guard = fmt.Sprintf("M < %d, ", l.Chain)
	}
	t := "level(0, 0).\nlevel(N, D) :- level(M, C), " + guard + "N = fn:plus(M, 1), D = fn:plus(C, 1).\n"
	if l.Ascend {
		guard = ""
		if l.Chain > 0 {
			guard = fmt.Sprintf("C < %d, ", l.Chain)
		}
		t = "level(0, 0).\nlevel(N, D) :- level(N, C), " + guard + "D = fn:plus(C, 1).\n"
	}
	if l.Descend {
		guard = ""
		if l.Chain > 0 {
			guard = fmt.Sprintf("C > %d, ", -l.Chain)
		}
		t = "level(0, 0).\nlevel(N, D) :- level(N, C), " + guard + "D = fn:minus(C, 1).\n"
	}
	if l.TwoRules && !l.Descend {
		t += "level(N, D) :- level(M, C), " + guard + "N = fn:plus(M, 1), D = C.\n"
	}
	for i := 1; i <= l.Pad; i++ {
		t += fmt.Sprintf("pad(%d).\n", i)
	}
	if !l.Plain {
		t += "deeper(D1, D2, D) :- D1 < D2, D = D2.\ndeeper(D1, D2, D) :- D2 <= D1, D = D1.\n"
	}
	return t
}

func c17Atom(s string) ast.Atom {
	t, err := parse.Term(s)
	if err != nil {
		panic(err)
	}
	return t.(ast.Atom)
}

// c17ExecLattice: the chain creates one fact for a fresh key per round, so only the total limit can stop it.
func c17ExecLattice(c c17Case, res *core.Result) (skip string, fail *evalFail) {
	l := *c.Lattice
	unit, err := parse.Unit(strings.NewReader(c17LatticeText(l)))
	if err != nil {
		return "parse-error", nil
	}
	if !l.Plain {
		levelDecl, err1 := ast.NewDecl(c17Atom("level(N, D)"), []ast.Atom{c17Atom("fundep([N], [D])"), c17Atom("merge([D], 'deeper')")}, nil, nil)
		deeperDecl, err2 := ast.NewDecl(c17Atom("deeper(D1, D2, D)"), []ast.Atom{c17Atom("mode('+', '+', '-')"), c17Atom("deferred()")}, nil, nil)
		if err1 != nil || err2 != nil {
			return "decl-error", nil
		}
		unit.Decls = append(unit.Decls, levelDecl, deeperDecl)
	}
	pi, err := analysis.AnalyzeOneUnit(unit, nil)
	if err != nil {
		return "analysis-rejected", nil
	}
	rules := len(unit.Clauses)
	B := (rules + 3) * (c.Limit + 1) * 4
	cs := &countingStore{FactStore: newEngineStore(c.Kind, nil), budget: B, lookupBudget: 100*B + 1000}
	var evalErr error
	exceeded := -1
	tries := -1
	looks := -1
	func() {
		defer func() {
			if r := recover(); r != nil {
				if be, ok := r.(budgetExceeded); ok {
					exceeded = be.adds
					return
				}
				if te, ok := r.(triesExceeded); ok {
					tries = te.tries
					return
				}
				if le, ok := r.(lookupsExceeded); ok {
					looks = le.lookups
					return
				}
				panic(r)
			}
		}()
		evalErr = engine.EvalProgram(pi, countingRemoveStore{cs}, c17EvalOptions(c)...)
	}()
	if res != nil {
		res.Ob("evaluations", 1)
		res.Ob("lattice_programs", 1)
		res.Ob("facts_created_total", cs.adds)
		if l.Chain == 0 {
			res.Ob("divergent_programs", 1)
		}
		if evalErr != nil {
			res.Ob("runs_ending_with_error", 1)
		} else if exceeded < 0 && tries < 0 && looks < 0 {
			res.Ob("runs_ending_without_error", 1)
		}
		d := l.Chain + 1 - c.Limit
		res.NonTrivial = l.Chain == 0 || l.Chain+1 > c.Limit || (d >= -3 && d <= 3)
		if l.Descend {
			res.Ob("lattice_absorbing_chains", 1)
		}
	}
	tag := ":lattice"
	if l.Plain {
		tag = ":lattice-control"
	}
	if l.Descend {
		tag += "-descending"
	}
	if looks >= 0 {
		return "", &evalFail{"rounds-not-bounded" + tag, fmt.Sprintf("limit %d, store %s: the evaluation looked into the store %d times (bound %d) after offering it %d facts (%d accepted) and was still running", c.Limit, c.Kind, looks, cs.lookupBudget, cs.tries, cs.adds)}
	}
	if tries >= 0 {
		return "", &evalFail{"add-attempts-not-bounded" + tag, fmt.Sprintf("limit %d, store %s: the evaluation offered %d facts to the store (%d accepted) and was still running", c.Limit, c.Kind, tries, cs.adds)}
	}
	if exceeded >= 0 {
		return "", &evalFail{"creation-not-bounded" + tag, fmt.Sprintf("limit %d, store %s: the evaluation created %d facts, more than the bound B=%d, and was still running", c.Limit, c.Kind, exceeded, B)}
	}
	if evalErr != nil {
		return "", nil
	}
	if l.Descend && !l.Plain {
		// every derived fact is absorbed: the model is the single written fact, whatever the limit
		levels := 0
		cs.FactStore.GetFacts(ast.NewQuery(ast.PredicateSym{Symbol: "level", Arity: 2}), func(ast.Atom) error { levels++; return nil })
		if !cs.Contains(ast.NewAtom("level", ast.Number(0), ast.Number(0))) || levels != 1 {
			return "", &evalFail{"silent-partial-result" + tag, fmt.Sprintf("limit %d, store %s: evaluation returned nil, level(0,0) stored: %v, level facts stored: %d (expected 1)", c.Limit, c.Kind, cs.Contains(ast.NewAtom("level", ast.Number(0), ast.Number(0))), levels)}
		}
		return "", nil
	}
	if l.Descend {
		// control without the declaration: the chain 0, -1, ..., -Chain
		if l.Chain == 0 {
			return "", &evalFail{"silent-partial-result:divergent" + tag, fmt.Sprintf("limit %d, store %s: evaluation of the unguarded chain returned nil after creating %d facts", c.Limit, c.Kind, cs.adds)}
		}
		for n := 0; n <= l.Chain; n++ {
			if !cs.Contains(ast.NewAtom("level", ast.Number(0), ast.Number(int64(-n)))) {
				return "", &evalFail{"silent-partial-result" + tag, fmt.Sprintf("limit %d, store %s: evaluation returned nil but level(0,%d) is missing", c.Limit, c.Kind, -n)}
			}
		}
		return "", nil
	}
	if l.Chain == 0 {
		return "", &evalFail{"silent-partial-result:divergent" + tag, fmt.Sprintf("limit %d, store %s: evaluation of the unguarded chain returned nil after creating %d facts", c.Limit, c.Kind, cs.adds)}
	}
	if l.Ascend {
		// the complete model under the merge keeps the top value of key 0 (without the declaration: every value)
		if !cs.Contains(ast.NewAtom("level", ast.Number(0), ast.Number(int64(l.Chain)))) {
			return "", &evalFail{"silent-partial-result" + tag, fmt.Sprintf("limit %d, store %s: evaluation returned nil but level(0,%d) is missing (ascending chain to %d)", c.Limit, c.Kind, l.Chain, l.Chain)}
		}
		return "", nil
	}
	for n := 0; n <= l.Chain; n++ {
		if !cs.Contains(ast.NewAtom("level", ast.Number(int64(n)), ast.Number(int64(n)))) {
			return "", &evalFail{"silent-partial-result" + tag, fmt.Sprintf("limit %d, store %s: evaluation returned nil but level(%d,%d) is missing (chain to %d)", c.Limit, c.Kind, n, n, l.Chain)}
		}
	}
	return "", nil
}

func c17Exec(c c17Case, res *core.Result) (skip string, fail *evalFail) {
	if c.Lattice != nil {
		return c17ExecLattice(c, res)
	}
	pi, err := analyze(c.Prog, false)
	if err != nil {
		return "analysis-rejected", nil
	}
	strata := 1
	levels := map[int]bool{}
	for _, ps := range c.Prog.Preds {
		if ps.IDB {
			levels[ps.Level] = true
		}
	}
	strata += len(c.Prog.Preds) // every predicate may be its own stratum
	B := (len(c.Prog.Rules) + 3) * (c.Limit + 1) * (strata + 1)
	// A run that ends without error cannot have created more than about (rules+2)*L facts
	// (per-join, per-round and per-store checks), so a reference bound of this size decides.
	refBound := (len(c.Prog.Rules)+3)*(c.Limit+1) + 50
	t0 := time.Now()
	rr, rerr := ref.Eval(refProgram(c.Prog), ref.Options{MaxFacts: refBound + len(c.Prog.Facts), MaxSteps: 40000})
	if rerr != nil && !errors.Is(rerr, ref.ErrTooLarge) {
		if errors.Is(rerr, ref.ErrEval) {
			return "ref-eval-error", nil
		}
		if errors.Is(rerr, ref.ErrBudget) {
			return "ref-step-budget", nil
		}
		return "ref-unsupported-or-unsafe", nil
	}
	divergent := errors.Is(rerr, ref.ErrTooLarge)
	if res != nil {
		res.Ob("ms_reference", int(time.Since(t0).Milliseconds()))
	}
	t1 := time.Now()
	store := &countingStore{FactStore: newEngineStore(c.Kind, baseAtoms(c.Prog)), budget: B}
	var evalErr error
	exceeded := -1
	tries := -1
	func() {
		defer func() {
			if r := recover(); r != nil {
				if be, ok := r.(budgetExceeded); ok {
					exceeded = be.adds
					return
				}
				if te, ok := r.(triesExceeded); ok {
					tries = te.tries
					return
				}
				panic(r)
			}
		}()
		evalErr = engine.EvalProgram(pi, store, c17EvalOptions(c)...)
	}()
	if res != nil {
		res.Ob("ms_engine", int(time.Since(t1).Milliseconds()))
		res.Ob("evaluations", 1)
		res.Ob("facts_created_total", store.adds)
		if divergent {
			res.Ob("divergent_programs", 1)
		}
		if evalErr != nil {
			res.Ob("runs_ending_with_error", 1)
		} else if exceeded < 0 {
			res.Ob("runs_ending_without_error", 1)
		}
	}
	hc := func() string {
		k := c.Kind
		if len(k) > 11 && k[:11] == "concurrent-" {
			k = k[11:]
		}
		if hashKeyed(k) && rr != nil && hashCollisions(refSet(rr)) {
			return "hash-collision:" + k
		}
		return ""
	}
	if tries >= 0 {
		if s := hc(); s != "" {
			return "", &evalFail{s, fmt.Sprintf("limit %d, store %s: the evaluation offered %d facts to the store (%d accepted) and was still running; the store conflates hash-equal atoms: Contains says a new fact is absent, Add refuses it, and the round never becomes empty", c.Limit, c.Kind, tries, store.adds)}
		}
		return "", &evalFail{"add-attempts-not-bounded", fmt.Sprintf("limit %d, store %s: the evaluation offered %d facts to the store (%d accepted) and was still running", c.Limit, c.Kind, tries, store.adds)}
	}
	if exceeded >= 0 {
		return "", &evalFail{"creation-not-bounded", fmt.Sprintf("limit %d, store %s: the evaluation created %d facts, more than the bound B=%d, and was still running", c.Limit, c.Kind, exceeded, B)}
	}
	derived := 0
	if rr != nil {
		derived = rr.Model.Size() - len(c.Prog.Facts)
	}
	if res != nil {
		d := derived - c.Limit
		if divergent || (d >= -3 && d <= 3) {
			res.NonTrivial = true
		}
	}
	if evalErr != nil {
		if !divergent && derived <= c.Limit/2 && res != nil {
			res.Ob("limit_error_on_small_model", 1)
		}
		return "", nil
	}
	// nil error: the store must hold the complete model
	if divergent {
		if s := hc(); s != "" {
			return "", &evalFail{s, fmt.Sprintf("limit %d, store %s: evaluation returned nil after creating %d facts although the model has more than %d derived facts; the store conflates hash-equal atoms so the fixpoint test succeeds early", c.Limit, c.Kind, store.adds, refBound)}
		}
		return "", &evalFail{"silent-partial-result:divergent", fmt.Sprintf("limit %d, store %s: evaluation returned nil after creating %d facts although the model has more than %d derived facts", c.Limit, c.Kind, store.adds, refBound)}
	}
	got, _, _ := storeSet(store)
	want := refSet(rr)
	if miss, extra := canon.Diff(want, got, 5); len(miss) > 0 || len(extra) > 0 {
		if s := hc(); s != "" {
			return "", &evalFail{s, fmt.Sprintf("limit %d, store %s: returned nil with an incomplete store (hash-equal atoms conflated): missing %v", c.Limit, c.Kind, miss)}
		}
		return "", &evalFail{"silent-partial-result", fmt.Sprintf("limit %d, store %s: evaluation returned nil but the store is not the complete model: missing %v, unexpected %v", c.Limit, c.Kind, miss, extra)}
	}
	return "", nil
}

func (c17) Run(cs any) core.Result {
	c := cs.(c17Case)
	var res core.Result
	res.Key = core.HashKey(progText(c.Prog), c.Text, fmt.Sprint(c.Limit), c.Kind, fmt.Sprint(c.Opts))
	res.Ob("limit:"+fmt.Sprint(c.Limit), 1)
	skip, fail := c17Exec(c, &res)
	if skip != "" {
		res.Ob("skipped:"+skip, 1)
		res.NonTrivial = false
		return res
	}
	if fail == nil {
		return res
	}
	sig := fail.sig
	min := c
	if c.Lattice == nil && core.ShrinkAllowed(sig) {
		pc := shrinkProg(progCase{Prog: c.Prog}, func(t progCase) bool {
			x := c
			x.Prog = t.Prog
			s, f := c17Exec(x, nil)
			return s == "" && f != nil && f.sig == sig
		})
		min.Prog = pc.Prog
		min.Text = progText(pc.Prog)
	}
	msg := fail.msg
	if _, f := c17Exec(min, nil); f != nil {
		msg = f.msg
	}
	raw, _ := json.Marshal(min)
	res.Violations = append(res.Violations, core.Violation{Sig: sig, Msg: msg + "\nminimal program:\n" + min.Text, Witness: raw})
	return res
}
