package props

import (
	"encoding/json"
	"fmt"
	"math/rand"

	"codeberg.org/TauCeti/mangle-go/analysis"
	"codeberg.org/TauCeti/mangle-go/ast"
	"codeberg.org/TauCeti/mangle-go/parse"

	"verif/internal/core"
)

// C03 — stratification respects every dependency or reports failure.

type c03Edge struct {
	From     int    `json:"from"`
	To       int    `json:"to"`
	Label    string `json:"label"`    // pos neg agg
	Temporal bool   `json:"temporal"` // mention wrapped in a TemporalLiteral
	Operator bool   `json:"operator"` // ... with a temporal operator
	Rule     int    `json:"rule"`     // which of the head's plain rules carries a pos/neg mention
}

type c03Case struct {
	N     int       `json:"n"`
	Edges []c03Edge `json:"edges"`
	Enum  int       `json:"enum"` // >=0: index in the exhaustive 3-predicate enumeration
	Perm  int64     `json:"perm"` // != 0: the rules are shuffled with this PRNG seed
	// Via != 0: the rule set is not handed to Stratify directly but goes through the analysis of a source unit that
	// also holds facts (for e and for some of the p_i, before and after their rules, placed by this PRNG seed); Stratify
	// is then called on the predicate sets and rules of the resulting ProgramInfo, as the engine does.
	Via int64 `json:"via,omitempty"`
	// Leaves: mentions of predicates that are neither extensional nor intensional for the submitted program (no
	// facts, no rules): leaf nodes of the dependency graph without an entry of their own.
	Leaves []c03Leaf `json:"leaves,omitempty"`
}

type c03Leaf struct {
	Head int  `json:"head"` // the rule of p<Head> that mentions the leaf
	Leaf int  `json:"leaf"` // u<Leaf>
	Neg  bool `json:"neg"`
}

type c03 struct{}

func init() { core.Register(c03{}) }

func (c03) ID() string { return "C03" }

const c03Exhaustive = 19683 // 3^9 labellings on 3 predicates

func (c03) Cases(tier string) int {
	if tier == "thorough" {
		return c03Exhaustive + 400000
	}
	return 80000
}
func (c03) Describe() core.Info {
	return core.Info{
		Level: "exploration",
		Rule: "calls to analysis.Stratify on synthetic rule sets (directly, or - a third of the graphs without temporal mentions - through analysis.AnalyzeOneUnit of a source unit that also holds facts for e and for some of the p_i, placed before and after their rules, with Stratify then called on the ProgramInfo's predicate sets and rules as the engine does) realising a chosen labelling {absent, positive, negative-by-negation, negative-by-aggregation} of every ordered predicate pair (self loops included), each positive/aggregated mention either plain or inside a TemporalLiteral (with or without operator); in half of the sampled graphs 1-3 pairs are mentioned again with another polarity (same rule, another rule of the same head, or the aggregating rule) and in half the rule list is shuffled, so that the strongest mention may come first or last; 3-8 predicates; a third of the directly submitted graphs also mention 1-3 predicates that have neither facts nor rules (leaf nodes without an entry of their own in the dependency graph); every graph submitted 3 times (map-order variation). The thorough tier first enumerates all 3^9 labellings on 3 predicates (observed counter enumerated_3pred_labellings; negative realisation and temporal wrapping drawn from the PRNG), then samples. Oracle: own Tarjan SCC over the generated edge list; failure expected iff a negative edge lies inside an SCC; on success layers must be a partition containing every rule head, list and map must agree, every dependency must point to the same or an earlier layer (strictly earlier if negative), SCC mates share a layer. Non-trivial: >= 2 SCCs or a negative edge; distinct by labelled graph.",
		Assumptions: []string{"negation inside a temporal literal is not producible by the parser and not generated"},
	}
}

func (c03) Gen(r *rand.Rand, tier string, i int) any {
	c := c03Case{Enum: -1}
	mk := func(from, to int, lab int) {
		if lab == 0 {
			return
		}
		e := c03Edge{From: from, To: to}
		switch lab {
		case 1:
			e.Label = "pos"
		default:
			e.Label = "neg"
			if r.Intn(2) == 0 {
				e.Label = "agg"
			}
		}
		if e.Label != "neg" && r.Intn(3) == 0 {
			e.Temporal = true
			e.Operator = r.Intn(2) == 0
		}
		c.Edges = append(c.Edges, e)
	}
	if tier == "thorough" && i < c03Exhaustive {
		c.N = 3
		c.Enum = i
		x := i
		for from := 0; from < 3; from++ {
			for to := 0; to < 3; to++ {
				mk(from, to, x%3)
				x /= 3
			}
		}
		return c
	}
	c.N = 3 + r.Intn(6)
	density := 1 + r.Intn(4)
	for from := 0; from < c.N; from++ {
		for to := 0; to < c.N; to++ {
			if r.Intn(c.N) < density {
				lab := 1
				if r.Intn(4) == 0 {
					lab = 2
				}
				mk(from, to, lab)
			}
		}
	}
	// The same ordered pair may be mentioned several times with different polarity, in one rule
	// or in different rules, and in any order: the strongest mention decides.
	if len(c.Edges) > 0 && r.Intn(2) == 0 {
		for k := 1 + r.Intn(3); k > 0; k-- {
			e := c.Edges[r.Intn(len(c.Edges))]
			e.Label = []string{"pos", "neg", "agg"}[r.Intn(3)]
			e.Temporal, e.Operator = false, false
			if e.Label != "neg" && r.Intn(3) == 0 {
				e.Temporal = true
				e.Operator = r.Intn(2) == 0
			}
			e.Rule = r.Intn(3)
			c.Edges = append(c.Edges, e)
		}
		if r.Intn(2) == 0 {
			r.Shuffle(len(c.Edges), func(a, b int) { c.Edges[a], c.Edges[b] = c.Edges[b], c.Edges[a] })
		}
	}
	if r.Intn(3) == 0 {
		for k := 1 + r.Intn(3); k > 0; k-- {
			c.Leaves = append(c.Leaves, c03Leaf{Head: r.Intn(c.N), Leaf: r.Intn(3), Neg: r.Intn(3) == 0})
		}
	}
	if r.Intn(3) == 0 && len(c.Leaves) == 0 {
		temporal := false
		for _, e := range c.Edges {
			temporal = temporal || e.Temporal
		}
		if !temporal {
			c.Via = 1 + r.Int63n(1<<40)
		}
	}
	if r.Intn(2) == 0 {
		c.Perm = 1 + r.Int63n(1<<40)
	}
	return c
}

func (c03) Decode(raw json.RawMessage) (any, error) {
	var c c03Case
	err := json.Unmarshal(raw, &c)
	return c, err
}

func c03Pred(i int) ast.PredicateSym { return ast.PredicateSym{Symbol: fmt.Sprintf("p%d", i), Arity: 1} }

func c03Program(c c03Case) analysis.Program {
	x := ast.Variable{Symbol: "X"}
	edb := ast.PredicateSym{Symbol: "e", Arity: 1}
	prog := analysis.Program{EdbPredicates: map[ast.PredicateSym]struct{}{edb: {}}, IdbPredicates: map[ast.PredicateSym]struct{}{}}
	for i := 0; i < c.N; i++ {
		prog.IdbPredicates[c03Pred(i)] = struct{}{}
	}
	mention := func(e c03Edge) ast.Term {
		a := ast.Atom{Predicate: c03Pred(e.To), Args: []ast.BaseTerm{x}}
		if !e.Temporal {
			return a
		}
		tl := ast.TemporalLiteral{Literal: a}
		if e.Operator {
			tl.Operator = &ast.TemporalOperator{Type: ast.DiamondMinus, Interval: ast.Interval{
				Start: ast.TemporalBound{Type: ast.DurationTemporalBound, Timestamp: 0},
				End:   ast.TemporalBound{Type: ast.DurationTemporalBound, Timestamp: 3600_000_000_000}}}
		} else {
			iv := ast.Interval{Start: ast.NewVariableBound(ast.Variable{Symbol: "S"}), End: ast.NewVariableBound(ast.Variable{Symbol: "E"})}
			tl.Interval = &iv
		}
		return tl
	}
	for i := 0; i < c.N; i++ {
		head := ast.Atom{Predicate: c03Pred(i), Args: []ast.BaseTerm{x}}
		plain := []ast.Term{ast.Atom{Predicate: edb, Args: []ast.BaseTerm{x}}}
		extra := map[int][]ast.Term{}
		var agg []ast.Term
		for _, e := range c.Edges {
			if e.From != i {
				continue
			}
			var lit ast.Term
			switch e.Label {
			case "pos":
				lit = mention(e)
			case "neg":
				lit = ast.NegAtom{Atom: ast.Atom{Predicate: c03Pred(e.To), Args: []ast.BaseTerm{x}}}
			case "agg":
				agg = append(agg, mention(e))
				continue
			}
			if e.Rule == 0 {
				plain = append(plain, lit)
			} else {
				extra[e.Rule] = append(extra[e.Rule], lit)
			}
		}
		for _, lf := range c.Leaves {
			if lf.Head == i {
				a := ast.Atom{Predicate: ast.PredicateSym{Symbol: fmt.Sprintf("u%d", lf.Leaf), Arity: 1}, Args: []ast.BaseTerm{x}}
				if lf.Neg {
					plain = append(plain, ast.NegAtom{Atom: a})
				} else {
					plain = append(plain, a)
				}
			}
		}
		prog.Rules = append(prog.Rules, ast.Clause{Head: head, Premises: plain})
		for k := 1; k <= 2; k++ {
			if len(extra[k]) > 0 {
				prog.Rules = append(prog.Rules, ast.Clause{Head: head, Premises: append([]ast.Term{ast.Atom{Predicate: edb, Args: []ast.BaseTerm{x}}}, extra[k]...)})
			}
		}
		if len(agg) > 0 {
			cv := ast.Variable{Symbol: "C"}
			tr := &ast.Transform{Statements: []ast.TransformStmt{
				{Fn: ast.ApplyFn{Function: ast.FunctionSym{Symbol: "fn:group_by", Arity: 0}}},
				{Var: &cv, Fn: ast.ApplyFn{Function: ast.FunctionSym{Symbol: "fn:count", Arity: 0}}}}}
			prog.Rules = append(prog.Rules, ast.Clause{Head: ast.Atom{Predicate: c03Pred(i), Args: []ast.BaseTerm{cv}}, Premises: agg, Transform: tr})
		}
	}
	if c.Perm != 0 {
		rand.New(rand.NewSource(c.Perm)).Shuffle(len(prog.Rules), func(a, b int) { prog.Rules[a], prog.Rules[b] = prog.Rules[b], prog.Rules[a] })
	}
	return prog
}

// c03Stratify submits the rule set: directly, or through the analysis of a source unit with facts (Via).
func c03Stratify(c c03Case) (strata []analysis.Nodeset, m map[ast.PredicateSym]int, err error, skip string) {
	prog := c03Program(c)
	if c.Via == 0 {
		strata, m, err = analysis.Stratify(prog)
		return strata, m, err, ""
	}
	r := rand.New(rand.NewSource(c.Via))
	one := ast.Number(1)
	clauses := append([]ast.Clause{}, prog.Rules...)
	facts := []ast.Clause{{Head: ast.Atom{Predicate: ast.PredicateSym{Symbol: "e", Arity: 1}, Args: []ast.BaseTerm{one}}}}
	for i := 0; i < c.N; i++ {
		if r.Intn(2) == 0 {
			facts = append(facts, ast.Clause{Head: ast.Atom{Predicate: c03Pred(i), Args: []ast.BaseTerm{ast.Number(int64(r.Intn(3)))}}})
		}
	}
	for _, f := range facts {
		k := r.Intn(len(clauses) + 1)
		clauses = append(clauses[:k], append([]ast.Clause{f}, clauses[k:]...)...)
	}
	pi, aerr := analysis.AnalyzeOneUnit(parse.SourceUnit{Clauses: clauses}, nil)
	if aerr != nil {
		return nil, nil, nil, "analysis-rejected"
	}
	strata, m, err = analysis.Stratify(analysis.Program{EdbPredicates: pi.EdbPredicates, IdbPredicates: pi.IdbPredicates, Rules: pi.Rules})
	return strata, m, err, ""
}

// tarjan returns the SCC id of each node.
func tarjan(n int, adj [][]int) []int {
	index := make([]int, n)
	low := make([]int, n)
	on := make([]bool, n)
	comp := make([]int, n)
	for i := range index {
		index[i] = -1
		comp[i] = -1
	}
	var stack []int
	next, nc := 0, 0
	var visit func(v int)
	visit = func(v int) {
		index[v], low[v] = next, next
		next++
		stack = append(stack, v)
		on[v] = true
		for _, w := range adj[v] {
			if index[w] < 0 {
				visit(w)
				if low[w] < low[v] {
					low[v] = low[w]
				}
			} else if on[w] && index[w] < low[v] {
				low[v] = index[w]
			}
		}
		if low[v] == index[v] {
			for {
				w := stack[len(stack)-1]
				stack = stack[:len(stack)-1]
				on[w] = false
				comp[w] = nc
				if w == v {
					break
				}
			}
			nc++
		}
	}
	for v := 0; v < n; v++ {
		if index[v] < 0 {
			visit(v)
		}
	}
	return comp
}

func c03Check(c c03Case) (sig, msg string) {
	adj := make([][]int, c.N)
	type key struct{ a, b int }
	neg := map[key]bool{}
	for _, e := range c.Edges {
		adj[e.From] = append(adj[e.From], e.To)
		if e.Label != "pos" {
			neg[key{e.From, e.To}] = true
		}
	}
	comp := tarjan(c.N, adj)
	negCycle := false
	for k := range neg {
		if comp[k.a] == comp[k.b] {
			negCycle = true
		}
	}
	temporalTag := func(e c03Edge) string {
		if e.Temporal {
			return ":temporal-mention"
		}
		return ""
	}
	for rep := 0; rep < 3; rep++ {
		strata, m, err, skip := c03Stratify(c)
		if skip != "" {
			return "", "" // counted by the caller through c03Skipped
		}
		if negCycle {
			if err == nil {
				tag := ""
				for _, e := range c.Edges {
					if e.Label != "pos" && comp[e.From] == comp[e.To] && e.Temporal {
						tag = ":temporal-mention"
					}
				}
				// is there a negative in-SCC edge that is not temporal? then the plain one was missed
				for _, e := range c.Edges {
					if e.Label != "pos" && comp[e.From] == comp[e.To] && !e.Temporal {
						tag = ""
					}
				}
				return "accepted-negative-cycle" + tag, fmt.Sprintf("Stratify succeeded although a dependency cycle passes through a negated/aggregated mention (layers %v)", strata)
			}
			continue
		}
		if err != nil {
			return "rejected-stratifiable", fmt.Sprintf("Stratify failed (%v) although no cycle passes through a negated/aggregated mention", err)
		}
		// partition
		where := map[ast.PredicateSym]int{}
		for li, layer := range strata {
			for p := range layer {
				if prev, dup := where[p]; dup {
					return "duplicate-predicate", fmt.Sprintf("%v appears in layers %d and %d", p, prev, li)
				}
				where[p] = li
			}
		}
		for i := 0; i < c.N; i++ {
			p := c03Pred(i)
			li, ok := where[p]
			if !ok {
				return "missing-predicate", fmt.Sprintf("%v is in no layer: %v", p, strata)
			}
			if mi, ok := m[p]; !ok || mi != li {
				return "map-list-disagree", fmt.Sprintf("%v is in layer %d of the list but the map says %v (present %v)", p, li, mi, ok)
			}
		}
		if len(m) != len(where) {
			return "map-list-disagree", fmt.Sprintf("map has %d predicates, layers %d", len(m), len(where))
		}
		for _, e := range c.Edges {
			lf, lt := where[c03Pred(e.From)], where[c03Pred(e.To)]
			if lt > lf {
				return "dependency-in-later-layer" + temporalTag(e), fmt.Sprintf("p%d depends (%s) on p%d but p%d is in layer %d > %d; layers %v", e.From, e.Label, e.To, e.To, lt, lf, strata)
			}
			if e.Label != "pos" && lt == lf {
				return "negative-dependency-same-layer" + temporalTag(e), fmt.Sprintf("p%d depends negatively (%s) on p%d in the same layer %d; layers %v", e.From, e.Label, e.To, lf, strata)
			}
		}
		for i := 0; i < c.N; i++ {
			for j := 0; j < c.N; j++ {
				if comp[i] == comp[j] && where[c03Pred(i)] != where[c03Pred(j)] {
					return "scc-split", fmt.Sprintf("p%d and p%d are mutually recursive but in layers %d and %d", i, j, where[c03Pred(i)], where[c03Pred(j)])
				}
			}
		}
	}
	return "", ""
}

func (c03) Run(cs any) core.Result {
	c := cs.(c03Case)
	var res core.Result
	res.Evals = 3
	res.Key = core.HashKey(fmt.Sprint(c.N, c.Edges, c.Perm, c.Via, c.Leaves))
	adj := make([][]int, c.N)
	hasNeg, hasTemporal := false, false
	for _, e := range c.Edges {
		adj[e.From] = append(adj[e.From], e.To)
		if e.Label != "pos" {
			hasNeg = true
		}
		if e.Temporal {
			hasTemporal = true
		}
	}
	comp := tarjan(c.N, adj)
	ncomp := 0
	for _, x := range comp {
		if x+1 > ncomp {
			ncomp = x + 1
		}
	}
	res.NonTrivial = ncomp >= 2 || hasNeg
	if c.Enum >= 0 {
		res.Ob("enumerated_3pred_labellings", 1)
	}
	if hasTemporal {
		res.Ob("graphs_with_temporal_mentions", 1)
	}
	if c.Via != 0 {
		res.Ob("graphs_submitted_through_analysis_with_facts", 1)
		if _, _, _, skip := c03Stratify(c); skip != "" {
			res.Ob("skipped:"+skip, 1)
		}
	}
	sig, msg := c03Check(c)
	if sig == "" {
		res.Ob("stratify_calls", 3)
		return res
	}
	// shrink edges
	min := c
	min.Edges = core.ShrinkSlice(c.Edges, func(es []c03Edge) bool {
		t := c
		t.Edges = es
		s, _ := c03Check(t)
		return s == sig
	})
	_, msg2 := c03Check(min)
	if msg2 != "" {
		msg = msg2
	}
	raw, _ := json.Marshal(min)
	res.Violations = append(res.Violations, core.Violation{Sig: sig, Msg: fmt.Sprintf("%s\nminimal graph over %d predicates: %+v", msg, min.N, min.Edges), Witness: raw})
	return res
}
