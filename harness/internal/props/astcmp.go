package props

import (
	"fmt"

	"codeberg.org/TauCeti/mangle-go/ast"
	"codeberg.org/TauCeti/mangle-go/functional"

	"verif/internal/canon"
)

// Structural comparison of syntax trees that does not use the library's
// Equals/Hash/String. Closed constructor expressions are compared after
// evaluation (C09: "constants being compared after evaluating their
// constructor expressions").

func evalClosed(t ast.BaseTerm) (ast.Constant, bool) {
	switch x := t.(type) {
	case ast.Constant:
		return x, true
	case ast.ApplyFn:
		if !closedTerm(x) {
			return ast.Constant{}, false
		}
		var c ast.Constant
		ok := func() (ok bool) {
			defer func() {
				if recover() != nil {
					ok = false
				}
			}()
			r, err := functional.EvalExpr(x, nil)
			if err != nil {
				return false
			}
			cc, isC := r.(ast.Constant)
			c = cc
			return isC
		}()
		return c, ok
	}
	return ast.Constant{}, false
}

func closedTerm(t ast.BaseTerm) bool {
	switch x := t.(type) {
	case ast.Constant:
		return true
	case ast.Variable:
		return false
	case ast.ApplyFn:
		for _, a := range x.Args {
			if !closedTerm(a) {
				return false
			}
		}
		return true
	}
	return false
}

func cmpBase(a, b ast.BaseTerm) error {
	ca, oka := evalClosed(a)
	cb, okb := evalClosed(b)
	if oka && okb {
		if canon.Const(ca) != canon.Const(cb) {
			return fmt.Errorf("constant %v (%s) vs %v (%s)", ca, canon.Const(ca), cb, canon.Const(cb))
		}
		return nil
	}
	if oka != okb {
		return fmt.Errorf("term %v evaluates to a constant on one side only (other: %v)", a, b)
	}
	switch x := a.(type) {
	case ast.Variable:
		y, ok := b.(ast.Variable)
		if !ok || x.Symbol != y.Symbol {
			return fmt.Errorf("variable %v vs %v", a, b)
		}
		return nil
	case ast.ApplyFn:
		y, ok := b.(ast.ApplyFn)
		if !ok {
			return fmt.Errorf("function application %v vs %T %v", a, b, b)
		}
		if x.Function.Symbol != y.Function.Symbol || len(x.Args) != len(y.Args) {
			return fmt.Errorf("function %s/%d vs %s/%d", x.Function.Symbol, len(x.Args), y.Function.Symbol, len(y.Args))
		}
		for i := range x.Args {
			if err := cmpBase(x.Args[i], y.Args[i]); err != nil {
				return fmt.Errorf("%s arg %d: %w", x.Function.Symbol, i, err)
			}
		}
		return nil
	case ast.Constant:
		return fmt.Errorf("constant %v vs non-constant %v", a, b)
	}
	return fmt.Errorf("unexpected base term %T", a)
}

func cmpAtom(a, b ast.Atom) error {
	if a.Predicate.Symbol != b.Predicate.Symbol || len(a.Args) != len(b.Args) {
		return fmt.Errorf("predicate %s/%d vs %s/%d", a.Predicate.Symbol, len(a.Args), b.Predicate.Symbol, len(b.Args))
	}
	for i := range a.Args {
		if err := cmpBase(a.Args[i], b.Args[i]); err != nil {
			return fmt.Errorf("%s arg %d: %w", a.Predicate.Symbol, i, err)
		}
	}
	return nil
}

func cmpBound(a, b ast.TemporalBound) error {
	if a.Type != b.Type {
		return fmt.Errorf("bound type %d vs %d", a.Type, b.Type)
	}
	switch a.Type {
	case ast.TimestampBound, ast.DurationTemporalBound:
		if a.Timestamp != b.Timestamp {
			return fmt.Errorf("bound value %d vs %d", a.Timestamp, b.Timestamp)
		}
	case ast.VariableBound:
		if a.Variable.Symbol != b.Variable.Symbol {
			return fmt.Errorf("bound variable %v vs %v", a.Variable, b.Variable)
		}
	}
	return nil
}

func cmpInterval(a, b *ast.Interval, nilIsEternal bool) error {
	isNil := func(i *ast.Interval) bool {
		return i == nil || (nilIsEternal && i.Start.Type == ast.NegativeInfinityBound && i.End.Type == ast.PositiveInfinityBound)
	}
	if isNil(a) || isNil(b) {
		if isNil(a) != isNil(b) {
			return fmt.Errorf("interval present on one side only")
		}
		return nil
	}
	if err := cmpBound(a.Start, b.Start); err != nil {
		return fmt.Errorf("interval start: %w", err)
	}
	if err := cmpBound(a.End, b.End); err != nil {
		return fmt.Errorf("interval end: %w", err)
	}
	return nil
}

func cmpTerm(a, b ast.Term) error {
	switch x := a.(type) {
	case ast.Atom:
		y, ok := b.(ast.Atom)
		if !ok {
			return fmt.Errorf("atom %v vs %T %v", a, b, b)
		}
		return cmpAtom(x, y)
	case ast.NegAtom:
		y, ok := b.(ast.NegAtom)
		if !ok {
			return fmt.Errorf("negated atom %v vs %T %v", a, b, b)
		}
		return cmpAtom(x.Atom, y.Atom)
	case ast.Eq:
		y, ok := b.(ast.Eq)
		if !ok {
			return fmt.Errorf("equality %v vs %T %v", a, b, b)
		}
		if err := cmpBase(x.Left, y.Left); err != nil {
			return err
		}
		return cmpBase(x.Right, y.Right)
	case ast.Ineq:
		y, ok := b.(ast.Ineq)
		if !ok {
			return fmt.Errorf("inequality %v vs %T %v", a, b, b)
		}
		if err := cmpBase(x.Left, y.Left); err != nil {
			return err
		}
		return cmpBase(x.Right, y.Right)
	case ast.TemporalLiteral:
		y, ok := b.(ast.TemporalLiteral)
		if !ok {
			return fmt.Errorf("temporal literal %v vs %T %v", a, b, b)
		}
		if err := cmpTerm(x.Literal, y.Literal); err != nil {
			return err
		}
		if (x.Operator == nil) != (y.Operator == nil) {
			return fmt.Errorf("temporal operator present on one side only")
		}
		if x.Operator != nil {
			if x.Operator.Type != y.Operator.Type {
				return fmt.Errorf("operator type %d vs %d", x.Operator.Type, y.Operator.Type)
			}
			if err := cmpInterval(&x.Operator.Interval, &y.Operator.Interval, false); err != nil {
				return fmt.Errorf("operator window: %w", err)
			}
		}
		return cmpInterval(x.Interval, y.Interval, false)
	case ast.BaseTerm:
		y, ok := b.(ast.BaseTerm)
		if !ok {
			return fmt.Errorf("base term vs %T", b)
		}
		return cmpBase(x, y)
	}
	return fmt.Errorf("unexpected term %T", a)
}

func cmpClause(a, b ast.Clause) error {
	if err := cmpAtom(a.Head, b.Head); err != nil {
		return fmt.Errorf("head: %w", err)
	}
	if err := cmpInterval(a.HeadTime, b.HeadTime, true); err != nil {
		return fmt.Errorf("head annotation: %w", err)
	}
	if (a.Premises == nil) != (b.Premises == nil) {
		return fmt.Errorf("body present on one side only")
	}
	if len(a.Premises) != len(b.Premises) {
		return fmt.Errorf("%d premises vs %d", len(a.Premises), len(b.Premises))
	}
	for i := range a.Premises {
		if err := cmpTerm(a.Premises[i], b.Premises[i]); err != nil {
			return fmt.Errorf("premise %d: %w", i, err)
		}
	}
	ta, tb := a.Transform, b.Transform
	for k := 0; ta != nil || tb != nil; k++ {
		if ta == nil || tb == nil {
			return fmt.Errorf("transform %d present on one side only", k)
		}
		if len(ta.Statements) != len(tb.Statements) {
			return fmt.Errorf("transform %d: %d statements vs %d", k, len(ta.Statements), len(tb.Statements))
		}
		for i := range ta.Statements {
			sa, sb := ta.Statements[i], tb.Statements[i]
			if (sa.Var == nil) != (sb.Var == nil) || (sa.Var != nil && sa.Var.Symbol != sb.Var.Symbol) {
				return fmt.Errorf("transform %d stmt %d: variable differs", k, i)
			}
			if err := cmpBase(sa.Fn, sb.Fn); err != nil {
				return fmt.Errorf("transform %d stmt %d: %w", k, i, err)
			}
		}
		ta, tb = ta.Next, tb.Next
	}
	return nil
}
