package props

import (
	"math"
	"bytes"
	"compress/gzip"
	"encoding/json"
	"fmt"
	"io"
	"math/rand"
	"strings"

	"codeberg.org/TauCeti/mangle-go/ast"
	"codeberg.org/TauCeti/mangle-go/factstore"
	"github.com/klauspost/compress/zstd"

	"verif/internal/canon"
	"verif/internal/core"
	"verif/internal/gen"
)

// C19 — a saved fact store reloads to the same set of facts.

type c19Pred struct {
	P     string `json:"p"`
	Arity int    `json:"arity"`
}

type c19Case struct {
	Facts  []gen.AtomV `json:"facts"`
	Empty  []c19Pred   `json:"empty,omitempty"` // predicates listed by the source store without facts
	Comp   string      `json:"comp"`            // plain gzip zstd
	Det    bool        `json:"det"`
	Target string      `json:"target"` // store kind for ReadInto
}

type c19 struct{}

func init() { core.Register(c19{}) }

func (c19) ID() string { return "C19" }
func (c19) Cases(tier string) int {
	if tier == "thorough" {
		return 300000
	}
	return 7200
}
func (c19) Describe() core.Info {
	return core.Info{
		Level: "exploration",
		Rule: "fact sets of 0-60 facts over 1-8 predicates (zero-arity, same symbol with two arities, predicates listed without facts), all constant kinds (names over the full lexer character set incl. '%', strings with every escape class and control characters, bytes, boundary numbers, integral/huge/tiny floats, times, durations incl. extremes, nested values; every 150th fact set holds a value that prints to more than 64 KiB) x {plain,gzip,zstd} x {deterministic,not} x {ReadInto each store kind, lazy SimpleColumnStore}; lazy view queried with a pattern per stored fact for every subset of <= 3 constant columns plus non-matching constants; deterministic writes from two differently ordered sources must be byte-identical; the lazy view is written again (deterministic and not), must reload to the same facts, give the same deterministic bytes and still answer afterwards. Oracle: canonical-set equality. Non-trivial: >= 2 predicates of different arity and a constant needing escaping or a structured value; distinct by canonical fact set + configuration. A fifth of the array-backed fact sets hold a value from the ends of the ranges (first and last representable instant, the last instant of 1677, extreme durations, integers and floats), bare or in a list.",
		Assumptions: []string{"ReadInto target defaults to the array store (hash conflation of other stores is C06's finding)", "lines stay below bufio.Scanner's 64KiB token limit"},
	}
}

var c19PredPool = []c19Pred{{"p", 0}, {"p", 1}, {"p", 2}, {"q", 1}, {"q", 3}, {"r", 2}, {"z", 0}, {"a.b", 2}, {"w", 4}, {"e", 0}, {"e1", 1}}

func (c19) Gen(r *rand.Rand, tier string, i int) any {
	c := c19Case{Comp: []string{"plain", "gzip", "zstd"}[i%3], Det: (i/3)%2 == 0, Target: "multiarray"}
	if (i/6)%4 == 3 {
		c.Target = []string{"simple", "indexed", "multi"}[r.Intn(3)]
	}
	o := gen.ConstOpts{MaxDepth: 2}
	if c.Target != "multiarray" {
		o.SmallInts = true // keep clear of hash-equal atoms on hash-keyed targets
		o.NoTime = true
		o.NoFloat = true
	}
	np := 1 + r.Intn(6)
	perm := r.Perm(len(c19PredPool))
	preds := make([]c19Pred, np)
	for k := range preds {
		preds[k] = c19PredPool[perm[k]]
	}
	nf := r.Intn(30)
	if r.Intn(5) == 0 {
		nf = r.Intn(61)
	}
	pool := make([]gen.Val, 3+r.Intn(8))
	for k := range pool {
		pool[k] = gen.RandVal(r, o, 0)
	}
	if !o.NoTime && r.Intn(5) == 0 {
		// the ends of the value ranges: the first and last representable instants (1677-09-21, 2262-04-11), the last
		// instant of 1677, extreme durations, integers and floats, bare or inside a list
		b := []gen.Val{gen.TimeV(math.MinInt64), gen.TimeV(math.MinInt64 + 1), gen.TimeV(-9214560000000000001), gen.TimeV(-9214560000000000000),
			gen.TimeV(math.MaxInt64), gen.TimeV(math.MaxInt64 - 1), gen.Dur(math.MinInt64), gen.Dur(math.MaxInt64), gen.Num(math.MinInt64),
			gen.Num(math.MaxInt64), gen.Float(math.MaxFloat64), gen.Float(-math.MaxFloat64), gen.Float(math.SmallestNonzeroFloat64), gen.Float(math.Copysign(0, -1))}[r.Intn(14)]
		if r.Intn(3) == 0 {
			b = gen.ListV(b, gen.Num(1))
		}
		pool[r.Intn(len(pool))] = b
	}
	if i%150 == 77 {
		// a value whose printed form is longer than 64 KiB (one column line of the file): a long string, a long
		// byte string or a long list
		switch r.Intn(3) {
		case 0:
			pool[0] = gen.Str(strings.Repeat("long \"cell\" ", 6000+r.Intn(3000)))
		case 1:
			pool[0] = gen.BytesV(bytes.Repeat([]byte{0, 'x', 255}, 9000+r.Intn(3000)))
		default:
			xs := make([]gen.Val, 14000+r.Intn(3000))
			for k := range xs {
				xs[k] = gen.Num(int64(k % 7))
			}
			pool[0] = gen.ListV(xs...)
		}
		for _, p := range preds {
			if p.Arity > 0 {
				a := gen.AtomV{P: p.P, Args: make([]gen.Val, p.Arity)}
				for j := range a.Args {
					a.Args[j] = pool[j%len(pool)]
				}
				c.Facts = append(c.Facts, a)
				break
			}
		}
	}
	for k := 0; k < nf; k++ {
		p := preds[r.Intn(len(preds))]
		a := gen.AtomV{P: p.P, Args: make([]gen.Val, p.Arity)}
		for j := range a.Args {
			if r.Intn(3) == 0 {
				a.Args[j] = gen.RandVal(r, o, 0)
			} else {
				a.Args[j] = pool[r.Intn(len(pool))]
			}
		}
		c.Facts = append(c.Facts, a)
	}
	if c.Target != "multiarray" {
		// hash-keyed targets conflate hash-equal atoms (C06 finding F8): keep one atom per hash
		seen := map[uint64]string{}
		var keep []gen.AtomV
		for _, f := range c.Facts {
			at := f.Atom()
			k := canon.Atom(at)
			if prev, ok := seen[at.Hash()]; ok && prev != k {
				continue
			}
			seen[at.Hash()] = k
			keep = append(keep, f)
		}
		c.Facts = keep
	}
	if r.Intn(3) == 0 {
		for _, k := range perm[np:minInt(np+1+r.Intn(2), len(perm))] {
			c.Empty = append(c.Empty, c19PredPool[k])
		}
	}
	return c
}

func (c19) Decode(raw json.RawMessage) (any, error) {
	var c c19Case
	err := json.Unmarshal(raw, &c)
	return c, err
}

// listSource is a read-only store backed by a slice (deterministic order),
// listing additional predicates that have no facts.
type listSource struct {
	facts []ast.Atom
	preds []ast.PredicateSym
}

func (s listSource) GetFacts(q ast.Atom, cb func(ast.Atom) error) error {
	for _, f := range s.facts {
		if f.Predicate == q.Predicate && factstore.Matches(q.Args, f.Args) {
			if err := cb(f); err != nil {
				return err
			}
		}
	}
	return nil
}
func (s listSource) Contains(a ast.Atom) bool {
	for _, f := range s.facts {
		if canon.Atom(f) == canon.Atom(a) {
			return true
		}
	}
	return false
}
func (s listSource) ListPredicates() []ast.PredicateSym { return append([]ast.PredicateSym{}, s.preds...) }
func (s listSource) EstimateFactCount() int              { return len(s.facts) }

func c19Sources(c c19Case) (model canon.Set, a, b listSource) {
	model = canon.Set{}
	var facts []ast.Atom
	predSeen := map[ast.PredicateSym]bool{}
	var preds []ast.PredicateSym
	for _, f := range c.Facts {
		at := f.Atom()
		if model.Add(at) {
			facts = append(facts, at)
		}
		if !predSeen[at.Predicate] {
			predSeen[at.Predicate] = true
			preds = append(preds, at.Predicate)
		}
	}
	for _, e := range c.Empty {
		p := ast.PredicateSym{Symbol: e.P, Arity: e.Arity}
		if !predSeen[p] {
			predSeen[p] = true
			preds = append(preds, p)
		}
	}
	a = listSource{facts, preds}
	rf := make([]ast.Atom, len(facts))
	for i, f := range facts {
		rf[len(facts)-1-i] = f
	}
	rp := make([]ast.PredicateSym, len(preds))
	for i, p := range preds {
		rp[len(preds)-1-i] = p
	}
	b = listSource{rf, rp}
	return
}

func c19Compress(comp string, plain []byte) ([]byte, error) {
	switch comp {
	case "gzip":
		var buf bytes.Buffer
		w := gzip.NewWriter(&buf)
		w.Write(plain)
		w.Close()
		return buf.Bytes(), nil
	case "zstd":
		var buf bytes.Buffer
		w, err := zstd.NewWriter(&buf)
		if err != nil {
			return nil, err
		}
		w.Write(plain)
		w.Close()
		return buf.Bytes(), nil
	}
	return plain, nil
}

func c19Reader(comp string, data []byte) (io.Reader, error) {
	switch comp {
	case "gzip":
		return gzip.NewReader(bytes.NewReader(data))
	case "zstd":
		d, err := zstd.NewReader(bytes.NewReader(data))
		if err != nil {
			return nil, err
		}
		return d.IOReadCloser(), nil
	}
	return bytes.NewReader(data), nil
}

type c19Fail struct{ sig, msg string }

func c19Exec(c c19Case, res *core.Result) *c19Fail {
	model, srcA, srcB := c19Sources(c)
	sc := factstore.SimpleColumn{Deterministic: c.Det}
	var buf bytes.Buffer
	if err := sc.WriteTo(srcA, &buf); err != nil {
		return &c19Fail{"write-error", fmt.Sprintf("WriteTo failed: %v", err)}
	}
	plain := buf.Bytes()
	if c.Det {
		var buf2 bytes.Buffer
		if err := sc.WriteTo(srcB, &buf2); err != nil {
			return &c19Fail{"write-error", fmt.Sprintf("WriteTo (second source) failed: %v", err)}
		}
		if !bytes.Equal(plain, buf2.Bytes()) {
			return &c19Fail{"deterministic-bytes-differ", fmt.Sprintf("deterministic output depends on source order:\n--- A\n%s\n--- B\n%s", plain, buf2.Bytes())}
		}
		res.Ob("deterministic_pairs_compared", 1)
	}
	data, err := c19Compress(c.Comp, plain)
	if err != nil {
		return &c19Fail{"harness", err.Error()}
	}
	// eager
	rd, err := c19Reader(c.Comp, data)
	if err != nil {
		return &c19Fail{"harness", err.Error()}
	}
	target := newBase(c.Target)
	if err := sc.ReadInto(rd, target); err != nil {
		return &c19Fail{"read-error", fmt.Sprintf("ReadInto failed on a file the library wrote: %v\nfile:\n%s", err, plain)}
	}
	got := canon.Set{}
	dups := 0
	for _, f := range allFacts(target) {
		if !got.Add(f) {
			dups++
		}
	}
	if miss, extra := canon.Diff(model, got, 5); len(miss) > 0 || len(extra) > 0 {
		return &c19Fail{"eager-set-differs", fmt.Sprintf("ReadInto(%s): missing %v, unexpected %v", c.Target, miss, extra)}
	}
	res.Ob("eager_reloads", 1)
	// lazy
	var lazy *factstore.SimpleColumnStore
	switch c.Comp {
	case "gzip":
		lazy, err = factstore.NewSimpleColumnStoreFromGzipBytes(data)
	case "zstd":
		lazy, err = factstore.NewSimpleColumnStoreFromZstdBytes(data)
	default:
		lazy, err = factstore.NewSimpleColumnStoreFromBytes(data)
	}
	if err != nil {
		return &c19Fail{"lazy-open-error", fmt.Sprintf("NewSimpleColumnStore failed on a file the library wrote: %v", err)}
	}
	perPred := map[ast.PredicateSym]int{}
	for _, f := range model {
		perPred[f.Predicate]++
	}
	listed := map[ast.PredicateSym]bool{}
	for _, p := range lazy.ListPredicates() {
		listed[p] = true
	}
	for p, n := range perPred {
		if !listed[p] {
			return &c19Fail{"lazy-list", fmt.Sprintf("lazy ListPredicates omits %v", p)}
		}
		if got := lazy.FactCount(p); got != n {
			return &c19Fail{"lazy-factcount", fmt.Sprintf("lazy FactCount(%v) = %d, want %d", p, got, n)}
		}
	}
	for p := range listed {
		known := perPred[p] > 0
		for _, e := range srcA.preds {
			if e == p {
				known = true
			}
		}
		if !known {
			return &c19Fail{"lazy-list-extra", fmt.Sprintf("lazy ListPredicates lists unknown %v", p)}
		}
	}
	if got := lazy.EstimateFactCount(); got != len(model) {
		return &c19Fail{"lazy-count", fmt.Sprintf("lazy EstimateFactCount = %d, want %d", got, len(model))}
	}
	query := func(q ast.Atom, match func(ast.Atom) bool) *c19Fail {
		want := canon.Set{}
		for _, f := range model {
			if f.Predicate == q.Predicate && match(f) {
				want.Add(f)
			}
		}
		gotQ := canon.Set{}
		n := 0
		if err := lazy.GetFacts(q, func(a ast.Atom) error {
			gotQ.Add(a)
			n++
			return nil
		}); err != nil {
			return &c19Fail{"lazy-query-error", fmt.Sprintf("lazy GetFacts(%v) error: %v", q, err)}
		}
		if miss, extra := canon.Diff(want, gotQ, 5); len(miss) > 0 || len(extra) > 0 {
			return &c19Fail{"lazy-query-differs", fmt.Sprintf("lazy GetFacts(%v): missing %v, unexpected %v", q, miss, extra)}
		}
		if n != len(gotQ) {
			return &c19Fail{"lazy-query-duplicate", fmt.Sprintf("lazy GetFacts(%v) yielded %d results for %d distinct facts", q, n, len(gotQ))}
		}
		res.Ob("lazy_queries", 1)
		return nil
	}
	for p := range listed {
		if f := query(ast.NewQuery(p), func(ast.Atom) bool { return true }); f != nil {
			return f
		}
	}
	other := ast.String("no such constant \x00")
	cnt := 0
	for _, k := range model.Keys() {
		f := model[k]
		if cnt++; cnt > 12 {
			break
		}
		ar := len(f.Args)
		for mask := 1; mask < 1<<ar && mask < 16; mask++ {
			bits := 0
			for b := 0; b < ar; b++ {
				if mask&(1<<b) != 0 {
					bits++
				}
			}
			if bits > 3 {
				continue
			}
			args := make([]ast.BaseTerm, ar)
			for b := 0; b < ar; b++ {
				if mask&(1<<b) != 0 {
					args[b] = f.Args[b]
				} else {
					args[b] = ast.Variable{Symbol: fmt.Sprintf("X%d", b)}
				}
			}
			q := ast.Atom{Predicate: f.Predicate, Args: args}
			m := func(x ast.Atom) bool {
				for b := 0; b < ar; b++ {
					if mask&(1<<b) != 0 && canon.Const(x.Args[b].(ast.Constant)) != canon.Const(f.Args[b].(ast.Constant)) {
						return false
					}
				}
				return true
			}
			if fl := query(q, m); fl != nil {
				return fl
			}
		}
		if ar > 0 {
			args := make([]ast.BaseTerm, ar)
			for b := range args {
				args[b] = ast.Variable{Symbol: fmt.Sprintf("X%d", b)}
			}
			args[ar-1] = other
			if fl := query(ast.Atom{Predicate: f.Predicate, Args: args}, func(ast.Atom) bool { return false }); fl != nil {
				return fl
			}
		}
	}
	// re-save: the lazy view is itself a fact store that can be written again ("writing any fact store"); the
	// result must reload to the same facts, deterministic bytes must not depend on the source being a file view,
	// and the view must still answer afterwards
	var detRef bytes.Buffer
	if err := (factstore.SimpleColumn{Deterministic: true}).WriteTo(srcA, &detRef); err != nil {
		return &c19Fail{"write-error", fmt.Sprintf("WriteTo failed: %v", err)}
	}
	for _, det := range []bool{true, false} {
		var b bytes.Buffer
		if err := (factstore.SimpleColumn{Deterministic: det}).WriteTo(lazy, &b); err != nil {
			return &c19Fail{"resave-error", fmt.Sprintf("WriteTo(lazy view, deterministic=%v) failed: %v", det, err)}
		}
		if det && !bytes.Equal(b.Bytes(), detRef.Bytes()) {
			return &c19Fail{"resave-deterministic-bytes-differ", fmt.Sprintf("deterministic output written from the lazy view differs from the one written from the in-memory store:\n--- lazy\n%s\n--- memory\n%s", b.Bytes(), detRef.Bytes())}
		}
		again := factstore.NewMultiIndexedArrayInMemoryStore()
		if err := (factstore.SimpleColumn{}).ReadInto(bytes.NewReader(b.Bytes()), again); err != nil {
			return &c19Fail{"resave-read-error", fmt.Sprintf("a file written from the lazy view (deterministic=%v) cannot be read: %v", det, err)}
		}
		g2 := canon.Set{}
		for _, f := range allFacts(again) {
			g2.Add(f)
		}
		if miss, extra := canon.Diff(model, g2, 5); len(miss) > 0 || len(extra) > 0 {
			return &c19Fail{"resave-set-differs", fmt.Sprintf("re-saving the lazy view (deterministic=%v) changes the facts: missing %v, unexpected %v", det, miss, extra)}
		}
		for p := range listed {
			if f := query(ast.NewQuery(p), func(ast.Atom) bool { return true }); f != nil {
				f.sig = "after-resave:" + f.sig
				f.msg = fmt.Sprintf("after WriteTo(lazy view, deterministic=%v): %s", det, f.msg)
				return f
			}
		}
		res.Ob("resaves_of_the_lazy_view", 1)
	}
	return nil
}

func (c19) Run(cs any) core.Result {
	c := cs.(c19Case)
	var res core.Result
	model, _, _ := c19Sources(c)
	res.Key = core.HashKey(strings.Join(model.Keys(), ""), c.Comp, fmt.Sprint(c.Det), c.Target, fmt.Sprint(c.Empty))
	arities := map[int]bool{}
	special := false
	for _, f := range c.Facts {
		arities[len(f.Args)] = true
		for _, a := range f.Args {
			a.Walk(func(x gen.Val) {
				switch x.K {
				case "str":
					if !isPrintableASCII(x.S) || strings.ContainsAny(x.S, "\"\\'") {
						special = true
					}
				case "bytes", "float", "time", "dur", "pair", "list", "map", "struct":
					special = true
				case "name":
					if strings.ContainsAny(x.S, "%~") {
						special = true
					}
				}
			})
		}
	}
	res.NonTrivial = len(arities) >= 2 && special
	res.Ob("comp:"+c.Comp, 1)
	res.Ob("target:"+c.Target, 1)
	fail := c19Exec(c, &res)
	if fail == nil {
		return res
	}
	sig := fail.sig
	// shrink facts
	min := c
	min.Facts = core.ShrinkSlice(c.Facts, func(fs []gen.AtomV) bool {
		t := min
		t.Facts = fs
		var scratch core.Result
		f := c19Exec(t, &scratch)
		return f != nil && f.sig == sig
	})
	min.Empty = core.ShrinkSlice(min.Empty, func(es []c19Pred) bool {
		t := min
		t.Empty = es
		var scratch core.Result
		f := c19Exec(t, &scratch)
		return f != nil && f.sig == sig
	})
	var scratch core.Result
	msg := fail.msg
	if f := c19Exec(min, &scratch); f != nil {
		msg = f.msg
	}
	// name the responsible constant if a single fact remains
	detail := ""
	if len(min.Facts) == 1 {
		for _, a := range min.Facts[0].Args {
			one := min
			one.Facts = []gen.AtomV{{P: "p", Args: []gen.Val{a}}}
			one.Empty = nil
			var s2 core.Result
			if f := c19Exec(one, &s2); f != nil {
				leaf := c19ShrinkVal(a, one)
				detail = ":" + c19LeafClass(leaf)
				break
			}
		}
	} else if len(min.Facts) == 0 && len(min.Empty) > 0 {
		detail = fmt.Sprintf(":empty-predicate-arity-%d", min.Empty[0].Arity)
	}
	raw, _ := json.Marshal(min)
	res.Violations = append(res.Violations, core.Violation{Sig: sig + detail, Msg: msg, Witness: raw})
	return res
}

func c19ShrinkVal(v gen.Val, tmpl c19Case) gen.Val {
	fails := func(x gen.Val) bool {
		t := tmpl
		t.Facts = []gen.AtomV{{P: "p", Args: []gen.Val{x}}}
		var s core.Result
		return c19Exec(t, &s) != nil
	}
	for {
		progressed := false
		for _, k := range v.Kids {
			if fails(k) {
				v = k
				progressed = true
				break
			}
		}
		if !progressed {
			return v
		}
	}
}

func c19LeafClass(v gen.Val) string {
	if v.K == "name" && strings.Contains(v.S, "%") {
		return "name-with-percent"
	}
	return c09LeafClass(v)
}
