package props

import (
	"fmt"
	"sort"
	"strings"

	"codeberg.org/TauCeti/mangle-go/analysis"
	"codeberg.org/TauCeti/mangle-go/ast"
	"codeberg.org/TauCeti/mangle-go/engine"
	"codeberg.org/TauCeti/mangle-go/factstore"
	"codeberg.org/TauCeti/mangle-go/parse"

	"verif/internal/canon"
	"verif/internal/gen"
	"verif/internal/ref"
)

// progClauses builds the library clauses for a generated program.
func progClauses(p gen.ProgramV, withFacts bool) []ast.Clause {
	var cs []ast.Clause
	if withFacts {
		for _, f := range p.Facts {
			cs = append(cs, ast.Clause{Head: f.Atom()})
		}
	}
	for _, r := range p.Rules {
		cs = append(cs, r.Build())
	}
	return cs
}

func progText(p gen.ProgramV) string {
	var sb strings.Builder
	for _, c := range progClauses(p, true) {
		sb.WriteString(c.String())
		sb.WriteByte('\n')
	}
	return sb.String()
}

// edbDecls returns synthetic declarations for the extensional predicates
// (needed when base facts are preloaded into the store instead of written as clauses).
func edbDecls(p gen.ProgramV) map[ast.PredicateSym]ast.Decl {
	m := map[ast.PredicateSym]ast.Decl{}
	for _, ps := range p.Preds {
		if ps.IDB {
			continue
		}
		sym := ast.PredicateSym{Symbol: ps.Name, Arity: len(ps.Sorts)}
		m[sym] = ast.NewSyntheticDeclFromSym(sym)
	}
	return m
}

func analyze(p gen.ProgramV, factsAsClauses bool) (*analysis.ProgramInfo, error) {
	unit := parse.SourceUnit{Clauses: progClauses(p, factsAsClauses)}
	var extra map[ast.PredicateSym]ast.Decl
	if !factsAsClauses {
		extra = edbDecls(p)
	}
	return analysis.AnalyzeOneUnit(unit, extra)
}

func baseAtoms(p gen.ProgramV) []ast.Atom {
	out := make([]ast.Atom, len(p.Facts))
	for i, f := range p.Facts {
		out[i] = f.Atom()
	}
	return out
}

// roundMonitor observes the semi-naive loop through the verif hook.
type roundMonitor struct {
	rounds       int
	deltaFacts   int
	missing      []string // delta facts not in the store at round start
	shrunk       bool
	lastCount    int
	sameRoundNew int // max number of facts first derived in one round
}

func (m *roundMonitor) install() {
	engine.VerifRoundHook = func(store, delta factstore.ReadOnlyFactStore) {
		m.rounds++
		n := 0
		for _, p := range delta.ListPredicates() {
			delta.GetFacts(ast.NewQuery(p), func(a ast.Atom) error {
				n++
				if !store.Contains(a) && len(m.missing) < 5 {
					m.missing = append(m.missing, a.String())
				}
				return nil
			})
		}
		m.deltaFacts += n
		if n > m.sameRoundNew {
			m.sameRoundNew = n
		}
		c := store.EstimateFactCount()
		if c < m.lastCount {
			m.shrunk = true
		}
		m.lastCount = c
	}
}

func uninstallMonitor() { engine.VerifRoundHook = nil }

// storeSet collects the canonical set of facts of a store, without internal predicates.
func storeSet(s factstore.ReadOnlyFactStore) (set canon.Set, dups int, nonGround []string) {
	set = canon.Set{}
	for _, a := range allFacts(s) {
		if a.Predicate.IsInternalPredicate() || a.Predicate.Symbol == "__now" {
			continue // __now(T) is the marker WithNowMarker adds after evaluation
		}
		if !a.IsGround() {
			nonGround = append(nonGround, a.String())
		}
		if !set.Add(a) {
			dups++
		}
	}
	return
}

// refSet converts a reference model into a canonical set; list columns that
// hold collect_distinct results are normalised (sorted) on both sides by normSetCols.
func refSet(r *ref.Result) canon.Set {
	set := canon.Set{}
	for _, f := range r.Model.All() {
		set.Add(f.AtomV().Atom())
	}
	return set
}

// setColPreds returns pred -> columns that are collect_distinct results.
func setColPreds(p gen.ProgramV) map[string][]int {
	out := map[string][]int{}
	for _, r := range p.Rules {
		if len(r.Transforms) == 0 {
			continue
		}
		for _, s := range r.Transforms[0] {
			if s.Fn.Name == "fn:collect_distinct" {
				for i, a := range r.Head.Args {
					if a.K == "var" && a.Name == s.Var {
						out[fmt.Sprintf("%s/%d", r.Head.Pred, len(r.Head.Args))] = append(out[fmt.Sprintf("%s/%d", r.Head.Pred, len(r.Head.Args))], i)
					}
				}
			}
		}
	}
	return out
}

// normSetCols sorts the elements of list-valued set columns so that order does not matter.
func normSetCols(set canon.Set, cols map[string][]int) canon.Set {
	if len(cols) == 0 {
		return set
	}
	out := canon.Set{}
	for _, a := range set {
		cs, ok := cols[fmt.Sprintf("%s/%d", a.Predicate.Symbol, a.Predicate.Arity)]
		if !ok {
			out.Add(a)
			continue
		}
		b := ast.Atom{Predicate: a.Predicate, Args: append([]ast.BaseTerm{}, a.Args...)}
		for _, i := range cs {
			c, ok := b.Args[i].(ast.Constant)
			if !ok || c.Type != ast.ListShape {
				continue
			}
			var elems []ast.Constant
			c.ListValues(func(e ast.Constant) error { elems = append(elems, e); return nil }, func() error { return nil })
			sort.Slice(elems, func(x, y int) bool { return canon.Const(elems[x]) < canon.Const(elems[y]) })
			if len(elems) == 0 {
				b.Args[i] = ast.ListNil
			} else {
				b.Args[i] = ast.List(elems)
			}
		}
		out.Add(b)
	}
	return out
}

// hashCollisions reports distinct atoms of the set that share an Atom.Hash().
func hashCollisions(set canon.Set) bool {
	seen := map[string]map[uint64]string{}
	for k, a := range set {
		pk := fmt.Sprintf("%s/%d", a.Predicate.Symbol, a.Predicate.Arity)
		if seen[pk] == nil {
			seen[pk] = map[uint64]string{}
		}
		h := a.Hash()
		if prev, ok := seen[pk][h]; ok && prev != k {
			return true
		}
		seen[pk][h] = k
	}
	return false
}

func refProgram(p gen.ProgramV) ref.Program { return ref.Program{Rules: p.Rules, Facts: p.Facts} }

// progFeatures summarises the structure of a program for the evidence.
func progFeatures(p gen.ProgramV) map[string]bool {
	f := map[string]bool{}
	heads := map[string]int{}
	for _, r := range p.Rules {
		heads[r.Head.Pred]++
	}
	level := map[string]int{}
	for _, ps := range p.Preds {
		level[ps.Name] = ps.Level
	}
	for _, r := range p.Rules {
		sameLevelIDB := 0
		for _, l := range r.Body {
			switch l.K {
			case "neg":
				f["negation"] = true
			case "eq":
				f["equality"] = true
				if l.L.K == "fn" || l.R.K == "fn" {
					f["function-expression"] = true
				}
			case "ineq":
				f["inequality"] = true
			case "atom":
				if strings.HasPrefix(l.Pred, ":") {
					f["builtin-predicate"] = true
				} else if heads[l.Pred] > 0 {
					if l.Pred == r.Head.Pred {
						f["direct-recursion"] = true
					}
					if level[l.Pred] == level[r.Head.Pred] {
						sameLevelIDB++
					}
				}
			}
		}
		if sameLevelIDB >= 1 {
			f["recursion-candidate"] = true
		}
		if sameLevelIDB >= 2 {
			f["two-atoms-from-same-level"] = true
		}
		if len(r.Transforms) > 0 {
			if r.Transforms[0][0].Var == "" {
				f["aggregation"] = true
			} else {
				f["let-transform"] = true
			}
		}
	}
	return f
}

// rawCollisions evaluates the program on the array store (which compares atoms
// structurally) and reports whether the resulting facts, exactly as stored,
// contain two distinct atoms with equal Atom.Hash().
func rawCollisions(pi *analysis.ProgramInfo, pre []ast.Atom) bool {
	store := newEngineStore("multiarray", pre)
	if err := engine.EvalProgram(pi, store); err != nil {
		return false
	}
	raw := canon.Set{}
	for _, a := range allFacts(store) {
		raw.Add(a)
	}
	return hashCollisions(raw)
}

// permCollisions reports whether some ordering of the set-valued list columns
// (collect_distinct results, whose order is unspecified) makes a fact collide in
// Atom.Hash() with a different fact of the same predicate.
func permCollisions(set canon.Set, cols map[string][]int) bool {
	if len(cols) == 0 {
		return false
	}
	byPred := map[string][]ast.Atom{}
	for _, a := range set {
		k := fmt.Sprintf("%s/%d", a.Predicate.Symbol, a.Predicate.Arity)
		byPred[k] = append(byPred[k], a)
	}
	for pk, cs := range cols {
		facts := byPred[pk]
		hashes := map[uint64]string{}
		for _, a := range facts {
			hashes[a.Hash()] = canon.Atom(normSetCols(canon.Set{"x": a}, cols)[firstKey(normSetCols(canon.Set{"x": a}, cols))])
		}
		for _, a := range facts {
			self := canon.Atom(normSetCols(canon.Set{"x": a}, cols)[firstKey(normSetCols(canon.Set{"x": a}, cols))])
			for _, ci := range cs {
				c, ok := a.Args[ci].(ast.Constant)
				if !ok || c.Type != ast.ListShape {
					continue
				}
				var elems []ast.Constant
				c.ListValues(func(e ast.Constant) error { elems = append(elems, e); return nil }, func() error { return nil })
				if len(elems) < 2 || len(elems) > 6 {
					continue
				}
				var rec func(k int) bool
				rec = func(k int) bool {
					if k == len(elems) {
						b := ast.Atom{Predicate: a.Predicate, Args: append([]ast.BaseTerm{}, a.Args...)}
						b.Args[ci] = ast.List(append([]ast.Constant{}, elems...))
						if other, ok := hashes[b.Hash()]; ok && other != self {
							return true
						}
						return false
					}
					for i := k; i < len(elems); i++ {
						elems[k], elems[i] = elems[i], elems[k]
						if rec(k + 1) {
							return true
						}
						elems[k], elems[i] = elems[i], elems[k]
					}
					return false
				}
				if rec(0) {
					return true
				}
			}
		}
	}
	return false
}

func firstKey(s canon.Set) string {
	for k := range s {
		return k
	}
	return ""
}
