package props

import (
	"encoding/json"
	"errors"
	"fmt"
	"math/rand"
	"strings"

	"codeberg.org/TauCeti/mangle-go/engine"

	"verif/internal/canon"
	"verif/internal/core"
	"verif/internal/gen"
	"verif/internal/ref"
)

// C02 — each aggregating rule reduces exactly its own body's solution set.

type c02 struct{}

func init() { core.Register(c02{}) }

func (c02) ID() string { return "C02" }
func (c02) Cases(tier string) int {
	if tier == "thorough" {
		return 400000
	}
	return 20000
}
func (c02) Describe() core.Info {
	return core.Info{
		Level: "exploration",
		Rule: "typed random programs in which about two thirds of the eligible predicates are defined by 1-3 aggregating rules (|> do fn:group_by(keys), let R = reducer): single- and multi-atom bodies (repeated variables in single-atom bodies), several aggregating rules with one head predicate, zero to two group keys, one or two reducers (count, sum, min, max, avg, collect_distinct read as a set), a plain non-recursive rule for the same head, bodies over recursive predicates of a lower stratum, comparisons inside the aggregated body, empty bodies. Oracle: per rule, the reference computes the distinct assignments of the body's named variables over the completed lower strata, groups them by key and folds each group; the expected facts of a head predicate are the union over its rules; compared with the stored facts on 4 store kinds (multi-indexed array, simple, teeing, and a teeing store whose base layer already holds every other fact of the model, as a saved result would). Non-trivial: some head predicate has >= 2 aggregating rules or >= 2 groups, and some group has >= 2 solutions; distinct by program+facts. A third of the aggregating rules carry 1-2 negated atoms / inequalities and nothing else behind their positive atoms (filters that a rewriting must not drop).",
		Assumptions: []string{"wildcards inside aggregated bodies are not generated (the property does not say whether a wildcard position counts rows)", "avg is generated over small integers only"},
		PerCaseTimeout: 120e9,
	}
}

func (c02) Gen(r *rand.Rand, tier string, i int) any {
	o := gen.ProgOpts{Negation: r.Intn(2) == 0, Compare: true, Functions: r.Intn(4) == 0, Lists: r.Intn(3) == 0, Do: true, DoPercent: 66, DoFilters: true, Mix: r.Intn(3) == 0,
		Wildcards: false, DoWildcards: true, Shuffle: 0, Reducers: []string{"fn:count", "fn:sum", "fn:min", "fn:max", "fn:avg", "fn:collect_distinct", "fn:sum", "fn:count"}}
	p := gen.RandProgram(r, o)
	return progCase{Prog: p, FactsAsClauses: r.Intn(2) == 0, Text: progText(p)}
}

func (c02) Decode(raw json.RawMessage) (any, error) {
	var c progCase
	err := json.Unmarshal(raw, &c)
	return c, err
}

var c02Stores = []string{"multiarray", "simple", "teeing", "teeing-snapshot"}

func c02Exec(c progCase, res *core.Result) (skip string, fail *evalFail) {
	rr, err := ref.Eval(refProgram(c.Prog), ref.Options{})
	if err != nil {
		switch {
		case errors.Is(err, ref.ErrUnsafe):
			return "ref-unsafe", nil
		case errors.Is(err, ref.ErrTooLarge):
			return "ref-too-large", nil
		case errors.Is(err, ref.ErrEval):
			return "ref-eval-error", nil
		}
		return "ref-unsupported", nil
	}
	pi, err := analyze(c.Prog, c.FactsAsClauses)
	if err != nil {
		return "analysis-rejected", nil
	}
	cols := setColPreds(c.Prog)
	want := normSetCols(refSet(rr), cols)
	for _, kind := range c02Stores {
		pre := baseAtoms(c.Prog)
		if c.FactsAsClauses {
			pre = nil
		}
		if kind == "teeing-snapshot" {
			// a saved, partial result of an earlier evaluation in the base layer: every other fact of the model
			for i, f := range rr.Model.All() {
				if i%2 == 0 {
					pre = append(pre, f.AtomV().Atom())
				}
			}
		}
		store := newEngineStore(kind, pre)
		if err := engine.EvalProgram(pi, store); err != nil {
			return "", &evalFail{"engine-error", fmt.Sprintf("store %s: EvalProgram failed: %v", kind, err)}
		}
		got, _, _ := storeSet(store)
		got = normSetCols(got, cols)
		if res != nil {
			res.Ob("evaluations", 1)
		}
		miss, extra := canon.Diff(want, got, 6)
		if len(miss) > 0 || len(extra) > 0 {
			// which predicate?
			pred := ""
			for k, a := range want {
				if _, ok := got[k]; !ok {
					pred = a.Predicate.Symbol
				}
			}
			for k, a := range got {
				if _, ok := want[k]; !ok {
					pred = a.Predicate.Symbol
				}
			}
			if hashKeyed(kind) && (hashCollisions(want) || hashCollisions(got) || rawCollisions(pi, pre) || permCollisions(want, cols)) {
				return "", &evalFail{"hash-collision:" + kind, fmt.Sprintf("store %s conflates hash-equal distinct atoms: missing %v, unexpected %v", kind, miss, extra)}
			}
			return "", &evalFail{c02Classify(c.Prog, pred), fmt.Sprintf("store %s: facts differ from per-rule aggregation: missing %v, unexpected %v", kind, miss, extra)}
		}
	}
	return "", nil
}

func c02Classify(p gen.ProgramV, pred string) string {
	multiAtomDo, singleRepeated, doRules := 0, false, 0
	for _, r := range p.Rules {
		if r.Head.Pred != pred || len(r.Transforms) == 0 || r.Transforms[0][0].Var != "" {
			continue
		}
		doRules++
		if len(r.Body) >= 2 {
			multiAtomDo++
		} else if len(r.Body) == 1 {
			seen := map[string]bool{}
			for _, a := range r.Body[0].Args {
				if a.K == "var" {
					if seen[a.Name] {
						singleRepeated = true
					}
					seen[a.Name] = true
				}
			}
		}
	}
	switch {
	case doRules == 0:
		return "non-aggregated-predicate-differs"
	case multiAtomDo >= 2:
		return "aggregation:several-multi-premise-rules-one-head"
	case singleRepeated:
		return "aggregation:single-atom-body-repeated-variable"
	}
	return "aggregation-mismatch"
}

func (c02) Run(cs any) core.Result {
	c := cs.(progCase)
	var res core.Result
	res.Key = core.HashKey(progText(c.Prog), fmt.Sprint(c.FactsAsClauses))
	skip, fail := c02Exec(c, &res)
	if skip != "" {
		res.Ob("skipped:"+skip, 1)
		return res
	}
	// coverage: shapes
	rr, _ := ref.Eval(refProgram(c.Prog), ref.Options{})
	doPerHead := map[string]int{}
	bigGroup, manyGroups := false, false
	for _, r := range c.Prog.Rules {
		if len(r.Transforms) == 0 || r.Transforms[0][0].Var != "" {
			continue
		}
		doPerHead[r.Head.Pred]++
		res.Ob("aggregating_rules", 1)
		if len(r.Body) >= 2 {
			res.Ob("aggregating_rules_multi_premise", 1)
		}
		if len(r.Transforms[0][0].Fn.Args) == 0 {
			res.Ob("aggregating_rules_without_key", 1)
		}
		if len(r.Transforms[0]) > 2 {
			res.Ob("aggregating_rules_two_reducers", 1)
		}
		if rr != nil {
			rows, err := ref.Solve(r.Body, rr.Model, rr.Model)
			if err == nil {
				ds, _ := ref.ApplyRule(r, rr.Model, rr.Model)
				if len(rows) == 0 {
					res.Ob("aggregating_rules_empty_body", 1)
				}
				if len(ds) >= 2 {
					manyGroups = true
				}
				if len(rows) > len(ds) && len(ds) > 0 {
					bigGroup = true
				}
			}
		}
	}
	sameHead := false
	for _, n := range doPerHead {
		if n >= 2 {
			sameHead = true
			res.Ob("heads_with_2+_aggregating_rules", 1)
		}
	}
	res.NonTrivial = (sameHead || manyGroups) && bigGroup
	if fail == nil {
		return res
	}
	sig := fail.sig
	min := c
	if core.ShrinkAllowed(sig) {
		min = shrinkProg(c, func(t progCase) bool {
			s, f := c02Exec(t, nil)
			return s == "" && f != nil && strings.HasPrefix(f.sig, "aggregation") == strings.HasPrefix(sig, "aggregation")
		})
	}
	msg := fail.msg
	if _, f := c02Exec(min, nil); f != nil {
		msg = f.msg
		sig = f.sig
	}
	raw, _ := json.Marshal(min)
	res.Violations = append(res.Violations, core.Violation{Sig: sig, Msg: msg + "\nminimal program:\n" + min.Text, Witness: raw})
	return res
}
