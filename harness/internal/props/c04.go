package props

import (
	"encoding/json"
	"errors"
	"fmt"
	"math/rand"
	"strings"

	"codeberg.org/TauCeti/mangle-go/engine"

	"verif/internal/canon"
	"verif/internal/core"
	"verif/internal/gen"
	"verif/internal/ref"
)

// C04 — programs accepted by analysis are safe to evaluate.

type c04Case struct {
	Prog   gen.ProgramV `json:"prog"`
	Target int          `json:"target"`         // index of the rule whose premise orders are explored
	Perm   []int        `json:"perm,omitempty"` // replay: only this order
	Text   string       `json:"text,omitempty"`
}

type c04 struct{}

func init() { core.Register(c04{}) }

func (c04) ID() string { return "C04" }
func (c04) Cases(tier string) int {
	if tier == "thorough" {
		return 600000
	}
	return 30000
}
func (c04) Describe() core.Info {
	return core.Info{
		Level:          "exploration",
		Rule:           "typed random programs in which one target rule is perturbed (a head / negated-atom / comparison / function-argument variable replaced by a fresh or wildcard variable, a binding atom dropped, a column of a positive atom turned into a function expression (an input column) over an unbound, self-bound or elsewhere-bound variable, let statements reordered / self-referring / referring to an undefined variable, a let statement over an alias variable that only a variable = variable equality (or a chain of two) connects to its binder, extra negated atoms whose variables are bound by later atoms; in a quarter of the cases the rule's variables are renamed to X0, X1, ..., the names the library generates itself for wildcards) and then submitted in every premise order (all permutations for <= 4 premises, 8 random ones otherwise). Judge 1: independent range-restriction judge on the clause as written (order independent): analysis must not accept an unsafe clause. Judge 2: for accepted safe programs, evaluation must not panic or fail with an unbound-variable class of error, all stored atoms are ground, and the result equals the reference model of the clause as written (so an accepted clause evaluated with a literal ignored is caught). Non-trivial: target rule has a negated atom or comparison and >= 2 premises; distinct by program text modulo the premise order. Further perturbations: a group key that is a function expression, a constant or a wildcard; an equality between two function applications placed anywhere in the body.",
		Assumptions:    []string{"rejection of a safe clause is not a violation (analysis may insist on a premise order)"},
		PerCaseTimeout: 120e9,
	}
}

func c04FreshVar(sort string, n int) gen.TermV {
	return gen.VarT(fmt.Sprintf("U%d", n))
}

func (c04) Gen(r *rand.Rand, tier string, i int) any {
	o := gen.ProgOpts{Negation: true, Compare: true, Functions: r.Intn(2) == 0, Lists: r.Intn(4) == 0, Let: r.Intn(3) == 0, Wildcards: true, Shuffle: 0, FnInAtoms: r.Intn(2) == 0, Do: r.Intn(3) == 0, DoPercent: 60}
	p := gen.RandProgram(r, o)
	// choose target: prefer rules with negation or comparisons
	target := r.Intn(len(p.Rules))
	for tries := 0; tries < 6; tries++ {
		t := r.Intn(len(p.Rules))
		has := false
		for _, l := range p.Rules[t].Body {
			if l.K == "neg" || l.K == "ineq" || strings.HasPrefix(l.Pred, ":") {
				has = true
			}
		}
		if has {
			target = t
			break
		}
	}
	rule := p.Rules[target]
	body := append([]gen.LitV{}, rule.Body...)
	mode := r.Intn(16)
	if mode == 14 {
		// this perturbation is about aggregating rules: take one if the program has any
		for t := range p.Rules {
			if tr := p.Rules[t].Transforms; len(tr) == 1 && len(tr[0]) > 0 && tr[0][0].Var == "" {
				target = t
				rule = p.Rules[t]
				body = append([]gen.LitV{}, rule.Body...)
				break
			}
		}
	}
	// lower predicates for extra negated atoms
	var lowerPreds []gen.PredSig
	headLevel := 1
	for _, ps := range p.Preds {
		if ps.Name == rule.Head.Pred {
			headLevel = ps.Level
		}
	}
	for _, ps := range p.Preds {
		if !ps.IDB || ps.Level < headLevel {
			lowerPreds = append(lowerPreds, ps)
		}
	}
	varsOfBody := func() []string {
		seen := map[string]bool{}
		var out []string
		var w func(t gen.TermV)
		w = func(t gen.TermV) {
			if t.K == "var" && t.Name != "_" && !seen[t.Name] {
				seen[t.Name] = true
				out = append(out, t.Name)
			}
			for _, a := range t.Args {
				w(a)
			}
		}
		for _, l := range body {
			if l.K == "atom" && !strings.HasPrefix(l.Pred, ":") {
				for _, a := range l.Args {
					w(a)
				}
			}
		}
		return out
	}
	switch {
	case mode < 3:
		// as generated (safe); premise orders are explored
	case mode < 5:
		// add 1-3 negated atoms over lower predicates using body variables (and sometimes wildcards / fresh variables)
		vs := varsOfBody()
		n := 1 + r.Intn(3)
		for k := 0; k < n && len(lowerPreds) > 0; k++ {
			q := lowerPreds[r.Intn(len(lowerPreds))]
			l := gen.LitV{K: "neg", Pred: q.Name}
			for range q.Sorts {
				switch x := r.Intn(10); {
				case x < 6 && len(vs) > 0:
					l.Args = append(l.Args, gen.VarT(vs[r.Intn(len(vs))]))
				case x < 8:
					l.Args = append(l.Args, gen.VarT("_"))
				case x < 9:
					l.Args = append(l.Args, c04FreshVar("", 90+k))
				default:
					l.Args = append(l.Args, gen.ConstT(gen.Num(int64(r.Intn(4)))))
				}
			}
			body = append(body, l)
		}
	case mode < 6:
		// head variable replaced by a fresh one / wildcard
		if len(rule.Head.Args) > 0 {
			k := r.Intn(len(rule.Head.Args))
			args := append([]gen.TermV{}, rule.Head.Args...)
			if r.Intn(3) == 0 {
				args[k] = gen.VarT("_")
			} else {
				args[k] = c04FreshVar("", 80)
			}
			rule.Head.Args = args
		}
	case mode < 8:
		// replace a variable inside a negated atom / inequality / comparison by a fresh one or wildcard
		var idx []int
		for k, l := range body {
			if l.K == "neg" || l.K == "ineq" || (l.K == "atom" && strings.HasPrefix(l.Pred, ":")) || l.K == "eq" {
				idx = append(idx, k)
			}
		}
		if len(idx) > 0 {
			k := idx[r.Intn(len(idx))]
			l := body[k]
			repl := c04FreshVar("", 70)
			if r.Intn(3) == 0 {
				repl = gen.VarT("_")
			}
			if l.L != nil {
				if r.Intn(2) == 0 {
					l.L = &repl
				} else {
					l.R = &repl
				}
			} else if len(l.Args) > 0 {
				args := append([]gen.TermV{}, l.Args...)
				args[r.Intn(len(args))] = repl
				l.Args = args
			}
			body[k] = l
		}
	case mode == 10 || mode == 11:
		// a column of a positive atom becomes a function expression (an input): over a variable that nothing
		// binds, over a head variable, or over a variable another atom binds (then the premise order decides)
		var idx []int
		for k, l := range body {
			if l.K == "atom" && !strings.HasPrefix(l.Pred, ":") && len(l.Args) > 0 {
				idx = append(idx, k)
			}
		}
		if len(idx) > 0 {
			k := idx[r.Intn(len(idx))]
			l := body[k]
			args := append([]gen.TermV{}, l.Args...)
			col := r.Intn(len(args))
			var v gen.TermV
			switch x := r.Intn(4); {
			case x == 0:
				v = c04FreshVar("", 60)
			case x == 1 && args[col].K == "var" && args[col].Name != "_":
				v = args[col] // the variable this very column used to bind
			default:
				if vs := varsOfBody(); len(vs) > 0 {
					v = gen.VarT(vs[r.Intn(len(vs))])
				} else {
					v = c04FreshVar("", 60)
				}
			}
			shape := r.Intn(5)
			if (shape == 0 || shape == 4) && !strings.HasPrefix(v.Name, "N") && !strings.HasPrefix(v.Name, "U") {
				shape = 1 + r.Intn(3) // arithmetic only over number variables: type errors are not the subject
			}
			switch shape {
			case 0:
				args[col] = gen.FnT("fn:plus", v, gen.ConstT(gen.Num(1)))
			case 1:
				args[col] = gen.FnT("fn:list", v)
			case 2:
				args[col] = gen.FnT("fn:pair", v, gen.ConstT(gen.Num(int64(r.Intn(3)))))
			case 3:
				args[col] = gen.FnT("fn:list:cons", v, gen.ConstT(gen.ListV()))
			default:
				args[col] = gen.FnT("fn:minus", gen.ConstT(gen.Num(3)), v)
			}
			l.Args = args
			body[k] = l
		}
	case mode == 15:
		// an equality between two function applications (a test, it binds nothing), placed anywhere in the body: over
		// body variables (then the premise order decides whether both sides have values) or a variable nothing binds
		vs := varsOfBody()
		pickVar := func() gen.TermV {
			if len(vs) == 0 || r.Intn(6) == 0 {
				return c04FreshVar("", 40)
			}
			return gen.VarT(vs[r.Intn(len(vs))])
		}
		a, b := pickVar(), pickVar()
		isNum := func(t gen.TermV) bool { return strings.HasPrefix(t.Name, "N") || strings.HasPrefix(t.Name, "U") }
		var lt, rt gen.TermV
		switch x := r.Intn(4); {
		case x == 0 && isNum(a) && isNum(b):
			lt, rt = gen.FnT("fn:plus", a, gen.ConstT(gen.Num(0))), gen.FnT("fn:plus", b, gen.ConstT(gen.Num(0)))
		case x == 1:
			lt, rt = gen.FnT("fn:pair", a, gen.ConstT(gen.Num(0))), gen.FnT("fn:pair", b, gen.ConstT(gen.Num(0)))
		case x == 2:
			lt, rt = gen.FnT("fn:list", a), gen.FnT("fn:list:cons", b, gen.ConstT(gen.ListV()))
		default:
			lt, rt = gen.FnT("fn:list", a), gen.FnT("fn:list", b)
		}
		k := r.Intn(len(body) + 1)
		body = append(body[:k:k], append([]gen.LitV{{K: "eq", L: &lt, R: &rt}}, body[k:]...)...)
	case mode == 14:
		// a group key that is not a plain variable: a function expression over a key variable, a constant, a wildcard
		if len(rule.Transforms) == 1 && len(rule.Transforms[0]) > 0 && rule.Transforms[0][0].Var == "" && len(rule.Transforms[0][0].Fn.Args) > 0 {
			st := append([]gen.StmtV{}, rule.Transforms[0]...)
			keys := append([]gen.TermV{}, st[0].Fn.Args...)
			k := r.Intn(len(keys))
			switch r.Intn(4) {
			case 0:
				keys[k] = gen.FnT("fn:plus", keys[k], gen.ConstT(gen.Num(1)))
			case 1:
				keys[k] = gen.FnT("fn:pair", keys[k], keys[k])
			case 2:
				keys[k] = gen.ConstT(gen.Num(1))
			default:
				keys[k] = gen.VarT("_")
			}
			st[0].Fn = gen.FnT("fn:group_by", keys...)
			rule.Transforms = [][]gen.StmtV{st}
		}
	case mode == 13:
		// a let-transform over an alias: the rule gets "A = V" (either orientation, anywhere in the body, also
		// before the atom that binds V) and a statement let Z9 = fn:mult(A, 1) whose result goes into a numeric head column
		var nums []string
		for _, v := range varsOfBody() {
			if strings.HasPrefix(v, "N") {
				nums = append(nums, v)
			}
		}
		var cols []int
		for _, ps := range p.Preds {
			if ps.Name == rule.Head.Pred && len(ps.Sorts) == len(rule.Head.Args) {
				for i, s := range ps.Sorts {
					if s == "num" {
						cols = append(cols, i)
					}
				}
			}
		}
		if len(nums) > 0 && len(cols) > 0 && len(rule.Transforms) == 0 {
			v := gen.VarT(nums[r.Intn(len(nums))])
			alias := gen.VarT("Al" + v.Name)
			chain := r.Intn(3) == 0 // A = B, B = V
			mid := gen.VarT("Am" + v.Name)
			if chain {
				body = append(body, gen.LitV{K: "eq", L: &alias, R: &mid}, gen.LitV{K: "eq", L: &mid, R: &v})
			} else if r.Intn(2) == 0 {
				body = append(body, gen.LitV{K: "eq", L: &alias, R: &v})
			} else {
				body = append(body, gen.LitV{K: "eq", L: &v, R: &alias})
			}
			rule.Transforms = [][]gen.StmtV{{{Var: "Z9", Fn: gen.FnT("fn:mult", alias, gen.ConstT(gen.Num(1)))}}}
			args := append([]gen.TermV{}, rule.Head.Args...)
			args[cols[r.Intn(len(cols))]] = gen.VarT("Z9")
			rule.Head.Args = args
		}
	case mode == 12 && r.Intn(3) == 0 && len(rule.Transforms) == 1 && len(rule.Transforms[0]) > 0 && rule.Transforms[0][0].Var != "":
		// a variable of a let statement is reached through an alias: A = V (or V = A) is added to the body, where it
		// may come before the atom that binds V, and the statement uses A instead of V
		st := append([]gen.StmtV{}, rule.Transforms[0]...)
		k := r.Intn(len(st))
		var uses []string
		var w func(t gen.TermV)
		w = func(t gen.TermV) {
			if t.K == "var" && t.Name != "_" {
				uses = append(uses, t.Name)
			}
			for _, a := range t.Args {
				w(a)
			}
		}
		w(st[k].Fn)
		bodyVars := map[string]bool{}
		for _, v := range varsOfBody() {
			bodyVars[v] = true
		}
		var cand []string
		for _, u := range uses {
			if bodyVars[u] {
				cand = append(cand, u)
			}
		}
		if len(cand) > 0 {
			v := cand[r.Intn(len(cand))]
			alias := gen.VarT("Al" + v)
			var rt func(t gen.TermV) gen.TermV
			rt = func(t gen.TermV) gen.TermV {
				if t.K == "var" && t.Name == v {
					return alias
				}
				n := t
				if len(t.Args) > 0 {
					n.Args = make([]gen.TermV, len(t.Args))
					for i, a := range t.Args {
						n.Args[i] = rt(a)
					}
				}
				return n
			}
			st[k].Fn = rt(st[k].Fn)
			rule.Transforms = [][]gen.StmtV{st}
			vt := gen.VarT(v)
			if r.Intn(2) == 0 {
				body = append(body, gen.LitV{K: "eq", L: &alias, R: &vt})
			} else {
				body = append(body, gen.LitV{K: "eq", L: &vt, R: &alias})
			}
		}
	case mode == 12:
		// let statements out of order, referring to themselves, or to a variable nothing defines
		if len(rule.Transforms) == 1 && len(rule.Transforms[0]) > 0 && rule.Transforms[0][0].Var != "" {
			st := append([]gen.StmtV{}, rule.Transforms[0]...)
			switch x := r.Intn(4); {
			case x == 0 && len(st) >= 2:
				st[0], st[1] = st[1], st[0]
			case x == 1:
				k := r.Intn(len(st))
				st[k].Fn = gen.FnT("fn:plus", gen.VarT(st[k].Var), gen.ConstT(gen.Num(1)))
			case x == 2:
				st = append(st, gen.StmtV{Var: "Z9", Fn: gen.FnT("fn:plus", gen.VarT("Z8"), gen.ConstT(gen.Num(1)))}, gen.StmtV{Var: "Z8", Fn: gen.FnT("fn:plus", gen.VarT(st[0].Var), gen.ConstT(gen.Num(1)))})
			default:
				st[len(st)-1].Fn = gen.FnT("fn:plus", c04FreshVar("", 50), gen.ConstT(gen.Num(1)))
			}
			rule.Transforms = [][]gen.StmtV{st}
		} else if len(rule.Transforms) == 0 {
			// give the rule a let-transform (sort preserving, values stay in the domain) whose statements
			// are in the wrong order, or in the right order for comparison
			var nums []string
			for _, v := range varsOfBody() {
				if strings.HasPrefix(v, "N") {
					nums = append(nums, v)
				}
			}
			var cols []int
			for _, ps := range p.Preds {
				if ps.Name == rule.Head.Pred && len(ps.Sorts) == len(rule.Head.Args) {
					for i, s := range ps.Sorts {
						if s == "num" {
							cols = append(cols, i)
						}
					}
				}
			}
			if len(nums) > 0 && len(cols) > 0 {
				v := gen.VarT(nums[r.Intn(len(nums))])
				st := []gen.StmtV{{Var: "Z9", Fn: gen.FnT("fn:plus", gen.VarT("Z8"), gen.ConstT(gen.Num(int64(r.Intn(3)))))}, {Var: "Z8", Fn: gen.FnT("fn:mult", v, gen.ConstT(gen.Num(0)))}}
				if r.Intn(2) == 0 {
					st[0], st[1] = st[1], st[0]
				}
				rule.Transforms = [][]gen.StmtV{st}
				args := append([]gen.TermV{}, rule.Head.Args...)
				args[cols[r.Intn(len(cols))]] = gen.VarT("Z9")
				rule.Head.Args = args
			}
		}
	default:
		// drop a positive atom (may unbind variables)
		var idx []int
		for k, l := range body {
			if l.K == "atom" && !strings.HasPrefix(l.Pred, ":") {
				idx = append(idx, k)
			}
		}
		if len(idx) > 1 || (len(idx) == 1 && len(body) > 1) {
			k := idx[r.Intn(len(idx))]
			body = append(body[:k], body[k+1:]...)
		}
	}
	rule.Body = body
	if r.Intn(4) == 0 {
		// variable names are part of the input: use the names the library generates itself (X0, X1, ...)
		rule = renameLikeFresh(rule, r.Int63())
	}
	p.Rules = append([]gen.ClauseV{}, p.Rules...)
	p.Rules[target] = rule
	return c04Case{Prog: p, Target: target, Text: progText(p)}
}

func (c04) Decode(raw json.RawMessage) (any, error) {
	var c c04Case
	err := json.Unmarshal(raw, &c)
	return c, err
}

func permutations(n int, r *rand.Rand, max int) [][]int {
	if n <= 4 {
		var out [][]int
		var rec func(cur []int, used []bool)
		rec = func(cur []int, used []bool) {
			if len(cur) == n {
				out = append(out, append([]int{}, cur...))
				return
			}
			for i := 0; i < n; i++ {
				if !used[i] {
					used[i] = true
					rec(append(cur, i), used)
					used[i] = false
				}
			}
		}
		rec(nil, make([]bool, n))
		return out
	}
	out := [][]int{}
	id := make([]int, n)
	for i := range id {
		id[i] = i
	}
	out = append(out, id)
	for k := 1; k < max; k++ {
		out = append(out, r.Perm(n))
	}
	return out
}

var unboundErrWords = []string{"not bound", "unbound", "will not have a value", "not a value", "not a constant", "cannot be evaluated", "no value"}

type c04Fail struct {
	sig, msg string
	perm     []int
}

func c04Exec(c c04Case, res *core.Result) *c04Fail {
	rule := c.Prog.Rules[c.Target]
	safe, why := ref.Safe(rule)
	// the other rules must be safe for the judgement of the target to be meaningful
	for i, r := range c.Prog.Rules {
		if i == c.Target {
			continue
		}
		if ok, _ := ref.Safe(r); !ok {
			if res != nil {
				res.Ob("skipped:other-rule-unsafe", 1)
			}
			return nil
		}
	}
	var want canon.Set
	refOK := false
	refErr := ""
	if safe {
		rr, err := ref.Eval(refProgram(c.Prog), ref.Options{})
		switch {
		case err == nil:
			want = refSet(rr)
			refOK = true
		case errors.Is(err, ref.ErrEval):
			refErr = "eval-error"
		default:
			refErr = err.Error()
		}
	}
	rng := rand.New(rand.NewSource(int64(len(c.Text))*7919 + int64(c.Target)))
	perms := permutations(len(rule.Body), rng, 8)
	if c.Perm != nil {
		perms = [][]int{c.Perm}
	}
	accepted, rejected := 0, 0
	for _, perm := range perms {
		if len(perm) != len(rule.Body) {
			continue
		}
		v := c.Prog
		v.Rules = append([]gen.ClauseV{}, c.Prog.Rules...)
		nr := rule
		nr.Body = make([]gen.LitV, len(rule.Body))
		for i, k := range perm {
			nr.Body[i] = rule.Body[k]
		}
		v.Rules[c.Target] = nr
		pi, err := analyze(v, true)
		if err != nil {
			rejected++
			continue
		}
		accepted++
		ruleText := nr.Build().String()
		if !safe {
			return &c04Fail{"accepted-unsafe:" + why, fmt.Sprintf("analysis accepts %q although %s cannot receive a value from a positive atom, an equality or a transform", ruleText, why), perm}
		}
		if !refOK {
			continue
		}
		store := newEngineStore("multiarray", nil)
		err = engine.EvalProgram(pi, store)
		if err != nil {
			for _, w := range unboundErrWords {
				if strings.Contains(err.Error(), w) {
					return &c04Fail{"eval-unbound-error", fmt.Sprintf("evaluation of accepted rule %q failed for lack of a value: %v", ruleText, err), perm}
				}
			}
			return &c04Fail{"eval-error", fmt.Sprintf("evaluation of accepted rule %q failed although the reference evaluates it: %v", ruleText, err), perm}
		}
		got, _, nonGround := storeSet(store)
		if len(nonGround) > 0 {
			return &c04Fail{"non-ground-fact", fmt.Sprintf("accepted rule %q stores non-ground atoms %v", ruleText, nonGround), perm}
		}
		if miss, extra := canon.Diff(want, got, 5); len(miss) > 0 || len(extra) > 0 {
			return &c04Fail{"evaluated-differently" + c04Ignored(v, c.Target, got), fmt.Sprintf("accepted rule %q is not evaluated as written: missing %v, unexpected %v", ruleText, miss, extra), perm}
		}
	}
	if res != nil {
		res.Ob("orders_accepted", accepted)
		res.Ob("orders_rejected", rejected)
		if safe {
			res.Ob("target_safe", 1)
			if accepted == 0 {
				res.Ob("safe_clause_rejected_in_every_order", 1)
			}
		} else {
			res.Ob("target_unsafe:"+why, 1)
		}
		if refErr != "" {
			res.Ob("reference_gave_no_model", 1)
		}
	}
	return nil
}

// c04Ignored tells which literal, if deleted from the target rule, makes the
// reference agree with what the engine computed.
func c04Ignored(p gen.ProgramV, target int, got canon.Set) string {
	rule := p.Rules[target]
	for i, l := range rule.Body {
		v := p
		v.Rules = append([]gen.ClauseV{}, p.Rules...)
		nr := rule
		nr.Body = append(append([]gen.LitV{}, rule.Body[:i]...), rule.Body[i+1:]...)
		if len(nr.Body) == 0 {
			continue
		}
		v.Rules[target] = nr
		rr, err := ref.Eval(refProgram(v), ref.Options{})
		if err != nil {
			continue
		}
		if miss, extra := canon.Diff(refSet(rr), got, 1); len(miss) == 0 && len(extra) == 0 {
			kind := l.K
			if l.K == "neg" {
				for _, a := range l.Args {
					if a.K == "var" && a.Name == "_" {
						kind = "neg-with-wildcard"
					}
				}
			}
			return ":literal-ignored:" + kind
		}
	}
	// or the rule derived nothing at all
	v := p
	v.Rules = append(append([]gen.ClauseV{}, p.Rules[:target]...), p.Rules[target+1:]...)
	if rr, err := ref.Eval(refProgram(v), ref.Options{}); err == nil {
		if miss, extra := canon.Diff(refSet(rr), got, 1); len(miss) == 0 && len(extra) == 0 {
			return ":rule-derives-nothing"
		}
	}
	return ""
}

// c04DiagnoseFnAtom: the failing premise order contains positive atoms with a function-expression argument
// that has no value yet, and without those atoms the rule (same order) is handled correctly.
func c04DiagnoseFnAtom(c c04Case, fail *c04Fail) bool {
	rule := c.Prog.Rules[c.Target]
	if len(fail.perm) != len(rule.Body) {
		return false
	}
	ordered := make([]gen.LitV, len(rule.Body))
	for i, k := range fail.perm {
		ordered[i] = rule.Body[k]
	}
	if len(gen.FnAtomsWithoutValue(ordered)) == 0 {
		return false
	}
	// drop such atoms until none is left (dropping one can take the value away from another one's argument)
	rest := ordered
	for {
		bad := gen.FnAtomsWithoutValue(rest)
		if len(bad) == 0 {
			break
		}
		drop := map[int]bool{}
		for _, i := range bad {
			drop[i] = true
		}
		var keep []gen.LitV
		for i, l := range rest {
			if !drop[i] {
				keep = append(keep, l)
			}
		}
		rest = keep
	}
	if len(rest) == 0 {
		return true
	}
	t := c
	t.Prog.Rules = append([]gen.ClauseV{}, c.Prog.Rules...)
	nr := rule
	nr.Body = rest
	t.Prog.Rules[t.Target] = nr
	t.Perm = make([]int, len(rest))
	for i := range t.Perm {
		t.Perm[i] = i
	}
	return c04Exec(t, nil) == nil
}

func (c04) Run(cs any) core.Result {
	c := cs.(c04Case)
	var res core.Result
	rule := c.Prog.Rules[c.Target]
	// key modulo premise order
	res.Key = core.HashKey(progText(c.Prog))
	hasNegCmp := false
	for _, l := range rule.Body {
		if l.K == "neg" || l.K == "ineq" || strings.HasPrefix(l.Pred, ":") {
			hasNegCmp = true
		}
	}
	res.NonTrivial = hasNegCmp && len(rule.Body) >= 2
	fail := c04Exec(c, &res)
	if fail == nil {
		return res
	}
	sig := fail.sig
	if c04DiagnoseFnAtom(c, fail) {
		// finding F37: not minimised further, the premise order is part of the witness
		w := c
		w.Perm = fail.perm
		raw, _ := json.Marshal(w)
		res.Violations = append(res.Violations, core.Violation{Sig: "positive-atom-function-argument-without-value", Msg: fail.msg + "\n(first detected as " + fail.sig + ")\nprogram (premises in generation order):\n" + c.Text, Witness: raw})
		return res
	}
	// shrink: other rules, facts, then literals of the target rule
	min := c
	min.Perm = nil
	allowed := core.ShrinkAllowed(sig)
	try := func(t c04Case) bool {
		if !allowed {
			return false
		}
		f := c04Exec(t, nil)
		return f != nil && f.sig == sig
	}
	// remove non-target rules
	for i := len(min.Prog.Rules) - 1; i >= 0; i-- {
		if i == min.Target {
			continue
		}
		t := min
		t.Prog.Rules = append(append([]gen.ClauseV{}, min.Prog.Rules[:i]...), min.Prog.Rules[i+1:]...)
		if i < t.Target {
			t.Target--
		}
		if try(t) {
			min = t
		}
	}
	min.Prog.Facts = core.ShrinkSlice(min.Prog.Facts, func(fs []gen.AtomV) bool {
		t := min
		t.Prog.Facts = fs
		return try(t)
	})
	body := min.Prog.Rules[min.Target].Body
	nb := core.ShrinkSlice(body, func(b []gen.LitV) bool {
		if len(b) == 0 {
			return false
		}
		t := min
		t.Prog.Rules = append([]gen.ClauseV{}, min.Prog.Rules...)
		rc := t.Prog.Rules[t.Target]
		rc.Body = b
		t.Prog.Rules[t.Target] = rc
		return try(t)
	})
	rc := min.Prog.Rules[min.Target]
	rc.Body = nb
	min.Prog.Rules = append([]gen.ClauseV{}, min.Prog.Rules...)
	min.Prog.Rules[min.Target] = rc
	msg := fail.msg
	if f := c04Exec(min, nil); f != nil {
		msg = f.msg
		min.Perm = f.perm
		sig = f.sig
	}
	min.Text = progText(min.Prog)
	raw, _ := json.Marshal(min)
	res.Violations = append(res.Violations, core.Violation{Sig: sig, Msg: msg + "\nminimal program (premises in generation order):\n" + min.Text, Witness: raw})
	return res
}
