package props

import (
	"encoding/json"
	"errors"
	"fmt"
	"math/rand"
	"strings"

	"codeberg.org/TauCeti/mangle-go/engine"
	"codeberg.org/TauCeti/mangle-go/factstore"

	"verif/internal/canon"
	"verif/internal/core"
	"verif/internal/gen"
	"verif/internal/ref"
)

// C20 — the naive and semi-naive evaluators compute the same facts.

type c20 struct{}

func init() { core.Register(c20{}) }

func (c20) ID() string { return "C20" }
func (c20) Cases(tier string) int {
	if tier == "thorough" {
		return 400000
	}
	return 20000
}
func (c20) Describe() core.Info {
	return core.Info{
		Level: "exploration",
		Rule: "transform-free typed random programs (positive atoms incl. recursion, negated atoms, equalities with and without function expressions, inequalities, comparisons and list built-ins, function expressions in heads) with base facts preloaded into two equal SimpleInMemoryStores; one is evaluated by EvalProgramNaive, the other by EvalProgram; programs either evaluator rejects at analysis are skipped. Oracle: equality of the two canonical fact sets; a panic or an evaluation failure on one side only is a violation. The reference evaluator is consulted only to name the side that is wrong. Non-trivial: recursion candidate or negation and >= 3 derived facts; distinct by program text.",
		Assumptions: []string{"EvalProgramNaive reports analysis/stratification errors and swallows evaluation errors by design; a silently smaller result is judged as a difference"},
		PerCaseTimeout: 120e9,
	}
}

func (c20) Gen(r *rand.Rand, tier string, i int) any {
	o := gen.ProgOpts{Negation: true, Compare: true, Functions: r.Intn(2) == 0, Lists: r.Intn(3) == 0, Wildcards: r.Intn(2) == 0, Shuffle: 5, FnInAtoms: r.Intn(2) == 0, Mix: r.Intn(3) == 0}
	p := gen.RandProgram(r, o)
	if i%10 == 3 {
		p = gen.RandClosureProgram(r) // non-linear recursion whose later atoms need facts of later rounds
	}
	if i%4 == 1 {
		gen.AddIDBFacts(r, &p) // rule-defined predicates with unit clauses of their own, anywhere in the clause list
	}
	return progCase{Prog: p, Text: progText(p)}
}

func (c20) Decode(raw json.RawMessage) (any, error) {
	var c progCase
	err := json.Unmarshal(raw, &c)
	return c, err
}

func c20Exec(c progCase, res *core.Result) (skip string, fail *evalFail) {
	// EvalProgramNaive only accepts the hash-keyed SimpleInMemoryStore. A difference that goes with
	// hash-equal atoms in one predicate of the model is the known store defect F8 (both runs lose one
	// atom of the pair, which one depends on the order of derivation), not an evaluator difference.
	const kind = "simple"
	pi, err := analyze(c.Prog, false)
	if err != nil {
		return "analysis-rejected", nil
	}
	// EvalProgramNaive has no fact limit: a program whose model is not small (a minimisation step may
	// delete the guard of a counting rule) is not submitted to it.
	rr, rerr := ref.Eval(refProgram(c.Prog), ref.Options{MaxFacts: 600, MaxSteps: 150_000})
	if errors.Is(rerr, ref.ErrTooLarge) || errors.Is(rerr, ref.ErrBudget) {
		return "model-not-small", nil
	}
	s1 := factstore.NewSimpleInMemoryStore()
	s2 := factstore.NewSimpleInMemoryStore()
	for _, a := range baseAtoms(c.Prog) {
		s1.Add(a)
		s2.Add(a)
	}
	var naiveErr error
	naivePanic := ""
	func() {
		defer func() {
			if r := recover(); r != nil {
				naivePanic = fmt.Sprint(r)
			}
		}()
		naiveErr = engine.EvalProgramNaive(progClauses(c.Prog, false), s1)
	}()
	if naivePanic == "" && naiveErr != nil {
		return "naive-rejected", nil
	}
	semiErr := engine.EvalProgram(pi, s2)
	if naivePanic != "" {
		if semiErr == nil {
			return "", &evalFail{"naive-panics:" + c20PanicClass(naivePanic), fmt.Sprintf("EvalProgramNaive panics (%s) on a program EvalProgram evaluates", naivePanic)}
		}
		return "both-fail", nil
	}
	if semiErr != nil {
		return "", &evalFail{"seminaive-error-only", fmt.Sprintf("EvalProgram fails (%v) on a program EvalProgramNaive evaluates", semiErr)}
	}
	a, _, _ := storeSet(s1)
	b, _, _ := storeSet(s2)
	if res != nil {
		res.Ob("pairs_compared", 1)
		if len(b)-len(c.Prog.Facts) >= 3 {
			res.Ob("programs_with_3+_derived_facts", 1)
		}
	}
	onlyNaive, onlySemi := canon.Diff(a, b, 5)
	if len(onlyNaive) == 0 && len(onlySemi) == 0 {
		return "", nil
	}
	// who is wrong?
	blame := "undetermined"
	if rerr == nil {
		want := refSet(rr)
		ma, ea := canon.Diff(want, a, 1)
		mb, eb := canon.Diff(want, b, 1)
		okA := len(ma) == 0 && len(ea) == 0
		okB := len(mb) == 0 && len(eb) == 0
		switch {
		case okB && !okA:
			blame = "naive"
		case okA && !okB:
			blame = "seminaive"
		case !okA && !okB:
			blame = "both"
		}
	} else if errors.Is(rerr, ref.ErrUnsafe) {
		blame = "undetermined(ref-unsafe)"
	}
	if hashKeyed(kind) && rr != nil && hashCollisions(refSet(rr)) {
		return "", &evalFail{"hash-collision:" + kind, fmt.Sprintf("on the %s store the final stores differ: only naive %v, only semi-naive %v; the model holds hash-equal atoms in one predicate, which this store conflates", kind, onlyNaive, onlySemi)}
	}
	return "", &evalFail{"stores-differ:" + blame + "-wrong" + c20Cause(c, blame), fmt.Sprintf("final stores differ: only naive %v, only semi-naive %v (reference blames: %s)", onlyNaive, onlySemi, blame)}
}

func c20PanicClass(p string) string {
	switch {
	case strings.Contains(p, "unhashable"):
		return "unhashable-ApplyFn"
	case strings.Contains(p, "interface conversion"):
		return "interface-conversion"
	case strings.Contains(p, "index out of range"):
		return "index-out-of-range"
	}
	return "other"
}

// c20Cause names the literal kinds of the program, coarse: negation / function / other.
func c20Cause(c progCase, blame string) string {
	if blame != "naive" {
		return ""
	}
	f := progFeatures(c.Prog)
	switch {
	case f["negation"]:
		return ":negation"
	case f["function-expression"]:
		return ":function-expression"
	case f["builtin-predicate"]:
		return ":builtin"
	}
	return ""
}

func (c20) Run(cs any) core.Result {
	c := cs.(progCase)
	var res core.Result
	res.Key = core.HashKey(progText(c.Prog))
	skip, fail := c20Exec(c, &res)
	if skip != "" {
		res.Ob("skipped:"+skip, 1)
		return res
	}
	feats := progFeatures(c.Prog)
	for f := range feats {
		res.Ob("feature:"+f, 1)
	}
	res.NonTrivial = (feats["recursion-candidate"] || feats["negation"]) && res.Obs["programs_with_3+_derived_facts"] > 0
	if fail == nil {
		return res
	}
	sig := fail.sig
	min := c
	if core.ShrinkAllowed(sig) {
		min = shrinkProg(c, func(t progCase) bool {
			s, f := c20Exec(t, nil)
			return s == "" && f != nil && strings.SplitN(f.sig, ":", 2)[0] == strings.SplitN(sig, ":", 2)[0]
		})
	}
	msg := fail.msg
	if _, f := c20Exec(min, nil); f != nil {
		msg = f.msg
		sig = f.sig
	}
	raw, _ := json.Marshal(min)
	res.Violations = append(res.Violations, core.Violation{Sig: sig, Msg: msg + "\nminimal program:\n" + min.Text, Witness: raw})
	return res
}
