// Package canon gives a canonical, type-tagged, injective encoding of Mangle
// constants and atoms that is computed through the public accessors only. It
// uses neither Hash(), Equals() nor String() of the library (those are under test).
package canon

import (
	"fmt"
	"sort"
	"strconv"
	"strings"

	"codeberg.org/TauCeti/mangle-go/ast"
)

// Const encodes a constant. Maps and structs are encoded as sorted entry sets
// (with duplicates kept), so construction order does not matter.
func Const(c ast.Constant) string {
	var sb strings.Builder
	writeConst(&sb, c)
	return sb.String()
}

func lp(sb *strings.Builder, tag string, s string) {
	sb.WriteString(tag)
	sb.WriteString(strconv.Itoa(len(s)))
	sb.WriteByte(':')
	sb.WriteString(s)
}

func writeConst(sb *strings.Builder, c ast.Constant) {
	switch c.Type {
	case ast.NameType:
		lp(sb, "n", c.Symbol)
	case ast.StringType:
		lp(sb, "s", c.Symbol)
	case ast.BytesType:
		lp(sb, "b", c.Symbol)
	case ast.NumberType:
		fmt.Fprintf(sb, "i%d;", c.NumValue)
	case ast.Float64Type:
		fmt.Fprintf(sb, "f%016x;", uint64(c.NumValue))
	case ast.TimeType:
		fmt.Fprintf(sb, "t%d;", c.NumValue)
	case ast.DurationType:
		fmt.Fprintf(sb, "d%d;", c.NumValue)
	case ast.PairShape:
		a, b, err := c.PairValue()
		if err != nil {
			sb.WriteString("?pair")
			return
		}
		sb.WriteString("P(")
		writeConst(sb, a)
		sb.WriteByte(',')
		writeConst(sb, b)
		sb.WriteByte(')')
	case ast.ListShape:
		sb.WriteString("L(")
		c.ListValues(func(e ast.Constant) error {
			writeConst(sb, e)
			sb.WriteByte(',')
			return nil
		}, func() error { return nil })
		sb.WriteByte(')')
	case ast.MapShape:
		var ents []string
		c.MapValues(func(k, v ast.Constant) error {
			ents = append(ents, Const(k)+"=>"+Const(v))
			return nil
		}, func() error { return nil })
		sort.Strings(ents)
		sb.WriteString("M{")
		for _, e := range ents {
			lp(sb, "", e)
		}
		sb.WriteByte('}')
	case ast.StructShape:
		var ents []string
		c.StructValues(func(k, v ast.Constant) error {
			ents = append(ents, Const(k)+"=>"+Const(v))
			return nil
		}, func() error { return nil })
		sort.Strings(ents)
		sb.WriteString("S{")
		for _, e := range ents {
			lp(sb, "", e)
		}
		sb.WriteByte('}')
	default:
		fmt.Fprintf(sb, "?type%d", c.Type)
	}
}

// Atom encodes a ground atom; non-constant arguments are encoded with a '?' tag
// (so a non-ground stored atom never equals a ground one).
func Atom(a ast.Atom) string {
	var sb strings.Builder
	lp(&sb, "@", a.Predicate.Symbol)
	fmt.Fprintf(&sb, "/%d(", a.Predicate.Arity)
	for _, arg := range a.Args {
		switch t := arg.(type) {
		case ast.Constant:
			writeConst(&sb, t)
		default:
			lp(&sb, "?", fmt.Sprintf("%T:%v", arg, arg))
		}
		sb.WriteByte('|')
	}
	sb.WriteByte(')')
	return sb.String()
}

// Set is a set of canonical atoms with one representative atom each.
type Set map[string]ast.Atom

func (s Set) Add(a ast.Atom) bool {
	k := Atom(a)
	if _, ok := s[k]; ok {
		return false
	}
	s[k] = a
	return true
}

func (s Set) Has(a ast.Atom) bool {
	_, ok := s[Atom(a)]
	return ok
}

// Diff returns printable atoms in a-b and b-a (sorted, truncated to max each).
func Diff(a, b Set, max int) (onlyA, onlyB []string) {
	for k, v := range a {
		if _, ok := b[k]; !ok {
			onlyA = append(onlyA, v.String())
		}
	}
	for k, v := range b {
		if _, ok := a[k]; !ok {
			onlyB = append(onlyB, v.String())
		}
	}
	sort.Strings(onlyA)
	sort.Strings(onlyB)
	if len(onlyA) > max {
		onlyA = append(onlyA[:max], fmt.Sprintf("… %d more", len(onlyA)-max))
	}
	if len(onlyB) > max {
		onlyB = append(onlyB[:max], fmt.Sprintf("… %d more", len(onlyB)-max))
	}
	return
}

// Keys returns the sorted canonical keys.
func (s Set) Keys() []string {
	ks := make([]string, 0, len(s))
	for k := range s {
		ks = append(ks, k)
	}
	sort.Strings(ks)
	return ks
}
