// Package core is the supervisor/worker skeleton shared by all property checks:
// deterministic per-case PRNGs, child-process workers with a journal, the
// three-valued verdict, known-finding matching and the evidence writer.
package core

import (
	"bufio"
	"crypto/sha256"
	"encoding/binary"
	"encoding/hex"
	"encoding/json"
	"fmt"
	"hash/fnv"
	"math/rand"
	"os"
	"os/exec"
	"path/filepath"
	"runtime"
	"runtime/debug"
	"sort"
	"strconv"
	"strings"
	"sync"
	"syscall"
	"time"
)

// Violation is one observed refutation of a property.
type Violation struct {
	// Sig is the root-cause signature computed by the property's own
	// diagnosis on the (minimised) witness; known findings match on it.
	Sig string `json:"sig"`
	// Msg is the human readable description (what was observed vs expected).
	Msg string `json:"msg"`
	// Witness is the (minimised) failing case, replayable.
	Witness json.RawMessage `json:"witness,omitempty"`
}

// Result is what running one case produced.
type Result struct {
	Violations   []Violation
	NonTrivial   bool
	Key          string         // distinctness key (content hash) when NonTrivial
	Obs          map[string]int // observation counters added to evidence
	Inconclusive string         // non-empty: case gave no verdict, reason
	Evals        int            // number of elementary evaluations in this case (default 1)
}

func (r *Result) Ob(k string, n int) {
	if r.Obs == nil {
		r.Obs = map[string]int{}
	}
	r.Obs[k] += n
}

func (r *Result) Violate(sig, format string, a ...any) {
	r.Violations = append(r.Violations, Violation{Sig: sig, Msg: fmt.Sprintf(format, a...)})
}

// Prop is one property check.
type Prop interface {
	ID() string
	// Cases returns the number of cases of the tier.
	Cases(tier string) int
	// Gen builds case i. It must depend only on rng (and i, tier).
	Gen(rng *rand.Rand, tier string, i int) any
	// Decode turns the JSON form of a case back into the value Run expects.
	Decode(raw json.RawMessage) (any, error)
	// Run executes the case against the library and judges it.
	Run(c any) Result
	// Describe returns rule text, assumptions and the evidence level.
	Describe() Info
}

type Info struct {
	Level       string
	Rule        string
	Assumptions []string
	Explanation string
	// PerCaseTimeout: watchdog (inconclusive on firing).
	PerCaseTimeout time.Duration
	// Env: extra environment for workers.
	Env []string
	// MaxWorkers overrides the default worker count when > 0.
	MaxWorkers int
}

var registry = map[string]Prop{}

func Register(p Prop) { registry[p.ID()] = p }
func Lookup(id string) Prop {
	return registry[id]
}
func IDs() []string {
	var ids []string
	for k := range registry {
		ids = append(ids, k)
	}
	sort.Strings(ids)
	return ids
}

// CaseRNG derives the PRNG of case i of a property from the run seed.
func CaseRNG(seed int64, prop string, i int) *rand.Rand {
	h := fnv.New64a()
	var b [8]byte
	binary.LittleEndian.PutUint64(b[:], uint64(seed))
	h.Write(b[:])
	h.Write([]byte(prop))
	binary.LittleEndian.PutUint64(b[:], uint64(i))
	h.Write(b[:])
	return rand.New(rand.NewSource(int64(h.Sum64())))
}

func HashKey(parts ...string) string {
	h := sha256.New()
	for _, p := range parts {
		h.Write([]byte(strconv.Itoa(len(p))))
		h.Write([]byte{':'})
		h.Write([]byte(p))
	}
	return hex.EncodeToString(h.Sum(nil)[:8])
}

// ---------------------------------------------------------------------------------
// Worker

type aggregate struct {
	Evals        int            `json:"evals"`
	Cases        int            `json:"cases"`
	Keys         []string       `json:"keys"`
	Obs          map[string]int `json:"obs"`
	Inconclusive map[string]int `json:"inconclusive"`
	Samples      []sampleRec    `json:"samples"`
}

type sampleRec struct {
	Index int             `json:"index"`
	Case  json.RawMessage `json:"case"`
}

type vioRec struct {
	Index int             `json:"index"`
	Case  json.RawMessage `json:"case"`
	V     Violation       `json:"v"`
}

// RunWorker runs cases from..n stepping by stride and journals to path.
func RunWorker(p Prop, tier string, seed int64, from, stride, n int, journal string) error {
	f, err := os.OpenFile(journal, os.O_CREATE|os.O_WRONLY|os.O_APPEND, 0o644)
	if err != nil {
		return err
	}
	defer f.Close()
	w := bufio.NewWriter(f)
	var mu sync.Mutex
	line := func(s string) {
		mu.Lock()
		w.WriteString(s)
		w.WriteByte('\n')
		w.Flush()
		mu.Unlock()
	}
	// memory guard
	cur := -1
	go func() {
		var ms runtime.MemStats
		for {
			time.Sleep(250 * time.Millisecond)
			runtime.ReadMemStats(&ms)
			if ms.HeapAlloc > 6<<30 {
				line(fmt.Sprintf("M %d", cur))
				os.Exit(3)
			}
		}
	}()
	debug.SetGCPercent(100)
	agg := newAgg()
	flush := func() {
		b, _ := json.Marshal(agg)
		line("A " + string(b))
		agg = newAgg()
	}
	sinceFlush := 0
	for i := from; i < n; i += stride {
		cur = i
		line(fmt.Sprintf("S %d", i))
		rng := CaseRNG(seed, p.ID(), i)
		c := p.Gen(rng, tier, i)
		res := runProtected(p, c)
		raw, _ := json.Marshal(c)
		for _, v := range res.Violations {
			if v.Witness == nil {
				v.Witness = raw
			}
			b, _ := json.Marshal(vioRec{Index: i, Case: raw, V: v})
			line("V " + string(b))
		}
		ev := res.Evals
		if ev == 0 {
			ev = 1
		}
		agg.Evals += ev
		agg.Cases++
		if res.NonTrivial && res.Key != "" {
			agg.Keys = append(agg.Keys, res.Key)
		}
		for k, v := range res.Obs {
			agg.Obs[k] += v
		}
		if res.Inconclusive != "" {
			agg.Inconclusive[res.Inconclusive]++
		}
		if len(agg.Samples) < 2 && res.NonTrivial && (i/stride)%97 == 0 {
			if len(raw) < 4000 {
				agg.Samples = append(agg.Samples, sampleRec{i, raw})
			}
		}
		line(fmt.Sprintf("E %d", i))
		sinceFlush++
		if sinceFlush >= 50 {
			flush()
			sinceFlush = 0
		}
	}
	flush()
	line("DONE")
	return nil
}

func newAgg() *aggregate {
	return &aggregate{Obs: map[string]int{}, Inconclusive: map[string]int{}}
}

// PanicSig is the signature prefix of crash violations.
const PanicSig = "panic"

func runProtected(p Prop, c any) (res Result) {
	defer func() {
		if r := recover(); r != nil {
			st := string(debug.Stack())
			res.Violations = append(res.Violations, Violation{
				Sig: PanicSig + ":" + panicSite(st),
				Msg: fmt.Sprintf("panic: %v\n%s", r, trimStack(st)),
			})
		}
	}()
	return p.Run(c)
}

// panicSite extracts the first mangle-go frame (function name) below the panic.
// PanicSite extracts the first library frame below the panic from a stack dump.
func PanicSite(st string) string { return panicSite(st) }

// TrimStack shortens a stack dump.
func TrimStack(st string) string { return trimStack(st) }

func panicSite(st string) string {
	lines := strings.Split(st, "\n")
	seenPanic := false
	for _, l := range lines {
		if strings.HasPrefix(l, "panic(") {
			seenPanic = true
			continue
		}
		if !seenPanic {
			continue
		}
		if strings.HasPrefix(l, "codeberg.org/TauCeti/mangle-go/") || strings.HasPrefix(l, "github.com/antlr4-go") {
			fn := l
			if k := strings.LastIndex(fn, "("); k > 0 {
				fn = fn[:k]
			}
			fn = strings.TrimPrefix(fn, "codeberg.org/TauCeti/mangle-go/")
			return fn
		}
	}
	// fall back: first library frame anywhere
	for _, l := range lines {
		if strings.HasPrefix(l, "codeberg.org/TauCeti/mangle-go/") {
			fn := l
			if k := strings.LastIndex(fn, "("); k > 0 {
				fn = fn[:k]
			}
			return strings.TrimPrefix(fn, "codeberg.org/TauCeti/mangle-go/")
		}
	}
	return "unknown"
}

func trimStack(st string) string {
	lines := strings.Split(st, "\n")
	if len(lines) > 40 {
		lines = lines[:40]
	}
	return strings.Join(lines, "\n")
}

// ---------------------------------------------------------------------------------
// Supervisor

type KnownFinding struct {
	Property string `json:"property"`
	ID       string `json:"id"`
	Status   string `json:"status"` // known | fixed
	Commit   string `json:"commit,omitempty"`
	What     string `json:"what"`
	// Match is the exact signature (or a prefix ending in '*') a violation's Sig must have.
	Match string `json:"match"`
}

func LoadKnown(path string) ([]KnownFinding, error) {
	b, err := os.ReadFile(path)
	if err != nil {
		return nil, err
	}
	var doc struct {
		Findings []KnownFinding `json:"findings"`
	}
	if err := json.Unmarshal(b, &doc); err != nil {
		return nil, err
	}
	return doc.Findings, nil
}

func matchKnown(kfs []KnownFinding, prop, sig string) *KnownFinding {
	for i := range kfs {
		k := &kfs[i]
		if k.Status != "known" || k.Property != prop {
			continue
		}
		if strings.HasSuffix(k.Match, "*") {
			if strings.HasPrefix(sig, strings.TrimSuffix(k.Match, "*")) {
				return k
			}
		} else if k.Match == sig {
			return k
		}
	}
	return nil
}

type Options struct {
	Prop     string
	Tier     string
	Seed     int64
	VerifDir string
	Workers  int
	Self     string   // path of this binary
	SelfArgs []string // extra args passed to workers
	Cases    int      // override (0 = tier default)
}

type Summary struct {
	Violations      int
	KnownHits       map[string]int
	Inconclusive    map[string]int
	Evals           int
	DistinctNonTriv int
}

// Supervise runs the check in child processes and writes evidence. Returns exit code.
func Supervise(o Options) int {
	p := Lookup(o.Prop)
	if p == nil {
		fmt.Fprintf(os.Stderr, "unknown property %s\n", o.Prop)
		return 2
	}
	info := p.Describe()
	start := time.Now()
	n := p.Cases(o.Tier)
	if o.Cases > 0 {
		n = o.Cases
	}
	workers := o.Workers
	if info.MaxWorkers > 0 && workers > info.MaxWorkers {
		workers = info.MaxWorkers
	}
	if workers > n {
		workers = n
	}
	if workers < 1 {
		workers = 1
	}
	workDir := filepath.Join(o.VerifDir, "work", fmt.Sprintf("%s-%s-%d-%d", o.Prop, o.Tier, o.Seed, os.Getpid()))
	os.MkdirAll(workDir, 0o755)
	defer os.RemoveAll(workDir)

	timeout := info.PerCaseTimeout
	if timeout == 0 {
		timeout = 60 * time.Second
	}

	type wres struct {
		aggs    []*aggregate
		vios    []vioRec
		crashes []crashRec
		incon   map[string]int
		inconAt []map[string]any // case index and reason of every watchdog / memory-guard kill
	}
	results := make([]wres, workers)
	var wg sync.WaitGroup
	for w := 0; w < workers; w++ {
		wg.Add(1)
		go func(w int) {
			defer wg.Done()
			from := w
			r := &results[w]
			r.incon = map[string]int{}
			attempt := 0
			for from < n {
				attempt++
				journal := filepath.Join(workDir, fmt.Sprintf("w%d-%d.journal", w, attempt))
				stderrPath := filepath.Join(workDir, fmt.Sprintf("w%d-%d.stderr", w, attempt))
				last, done, killed := runChild(o, info, from, workers, n, journal, stderrPath, timeout)
				aggs, vios, lastStarted, lastEnded, mem := parseJournal(journal)
				r.aggs = append(r.aggs, aggs...)
				r.vios = append(r.vios, vios...)
				_ = last
				if done {
					break
				}
				// child died: attribute to lastStarted if it has no E.
				if lastStarted >= 0 && lastStarted != lastEnded {
					tail := tailFile(stderrPath, 6000)
					switch {
					case mem:
						r.incon["memory-guard"]++
						r.inconAt = append(r.inconAt, map[string]any{"index": lastStarted, "reason": "memory-guard"})
					case killed:
						r.incon["watchdog"]++
						r.inconAt = append(r.inconAt, map[string]any{"index": lastStarted, "reason": "watchdog"})
					default:
						r.crashes = append(r.crashes, crashRec{Index: lastStarted, Stderr: tail})
					}
					from = lastStarted + workers
				} else if lastEnded >= 0 {
					from = lastEnded + workers
				} else {
					// died before starting anything: harness problem
					r.crashes = append(r.crashes, crashRec{Index: -1, Stderr: tailFile(stderrPath, 6000)})
					break
				}
				if attempt > 200 {
					r.crashes = append(r.crashes, crashRec{Index: -1, Stderr: "too many worker restarts"})
					break
				}
			}
		}(w)
	}
	wg.Wait()

	// aggregate
	total := newAgg()
	keys := map[string]struct{}{}
	var vios []vioRec
	var crashes []crashRec
	inconAt := []map[string]any{}
	for _, r := range results {
		for _, a := range r.aggs {
			total.Evals += a.Evals
			total.Cases += a.Cases
			for _, k := range a.Keys {
				keys[k] = struct{}{}
			}
			for k, v := range a.Obs {
				total.Obs[k] += v
			}
			for k, v := range a.Inconclusive {
				total.Inconclusive[k] += v
			}
			if len(total.Samples) < 4 {
				total.Samples = append(total.Samples, a.Samples...)
			}
		}
		for k, v := range r.incon {
			total.Inconclusive[k] += v
		}
		inconAt = append(inconAt, r.inconAt...)
		vios = append(vios, r.vios...)
		crashes = append(crashes, r.crashes...)
	}
	sort.Slice(vios, func(i, j int) bool { return vios[i].Index < vios[j].Index })
	for _, c := range crashes {
		var raw json.RawMessage
		if c.Index >= 0 {
			cs := p.Gen(CaseRNG(o.Seed, p.ID(), c.Index), o.Tier, c.Index)
			raw, _ = json.Marshal(cs)
		}
		vios = append(vios, vioRec{Index: c.Index, Case: raw, V: Violation{
			Sig: "crash:" + crashSite(c.Stderr), Msg: "worker process died while executing this case:\n" + c.Stderr, Witness: raw}})
	}

	kfs, err := LoadKnown(filepath.Join(o.VerifDir, "KNOWN_FINDINGS.json"))
	if err != nil {
		fmt.Fprintf(os.Stderr, "cannot load KNOWN_FINDINGS.json: %v\n", err)
		return 2
	}
	knownHits := map[string]int{}
	knownFirst := map[string]string{}
	var unknown []vioRec
	for _, v := range vios {
		if k := matchKnown(kfs, o.Prop, v.V.Sig); k != nil {
			knownHits[k.ID]++
			if _, ok := knownFirst[k.ID]; !ok {
				knownFirst[k.ID] = k.What
			}
			continue
		}
		unknown = append(unknown, v)
	}
	exit := 0
	var kids []string
	for id := range knownHits {
		kids = append(kids, id)
	}
	sort.Strings(kids)
	for _, id := range kids {
		fmt.Printf("KNOWN-FINDING: property=%s %s %s (observed %d times in this run)\n", o.Prop, id, knownFirst[id], knownHits[id])
	}
	// write replays for unknown violations (dedupe by sig, max 10 files)
	seenSig := map[string]int{}
	replayDir := filepath.Join(o.VerifDir, "replays")
	os.MkdirAll(replayDir, 0o755)
	for _, v := range unknown {
		seenSig[v.V.Sig]++
		if seenSig[v.V.Sig] > 1 || len(seenSig) > 40 {
			continue
		}
		rp := ReplayFile{Property: o.Prop, Tier: o.Tier, Seed: o.Seed, Index: v.Index, Sig: v.V.Sig, Msg: v.V.Msg, Case: v.V.Witness, Original: v.Case}
		b, _ := json.MarshalIndent(rp, "", " ")
		name := filepath.Join(replayDir, fmt.Sprintf("%s-%s.json", o.Prop, HashKey(string(v.V.Witness), v.V.Sig)))
		os.WriteFile(name, b, 0o644)
		fmt.Printf("VIOLATION property=%s replay=%s\n", o.Prop, name)
		msg := v.V.Msg
		if len(msg) > 1500 {
			msg = msg[:1500] + "…"
		}
		fmt.Printf("  sig=%s\n  %s\n", v.V.Sig, strings.ReplaceAll(msg, "\n", "\n  "))
		exit = 1
	}
	if len(unknown) > 0 {
		fmt.Printf("%d violating cases, %d distinct signatures\n", len(unknown), len(seenSig))
		type sc struct {
			s string
			n int
		}
		var scs []sc
		for s, n := range seenSig {
			scs = append(scs, sc{s, n})
		}
		sort.Slice(scs, func(i, j int) bool { return scs[i].n > scs[j].n || (scs[i].n == scs[j].n && scs[i].s < scs[j].s) })
		for i, x := range scs {
			if i >= 60 {
				break
			}
			fmt.Printf("  %6d  %s\n", x.n, x.s)
		}
	}

	// Evidence
	wall := time.Since(start).Seconds()
	samples := []any{}
	for _, s := range total.Samples {
		var x any
		json.Unmarshal(s.Case, &x)
		samples = append(samples, map[string]any{"index": s.Index, "case": x})
	}
	if len(samples) == 0 && n > 0 {
		cs := p.Gen(CaseRNG(o.Seed, p.ID(), 0), o.Tier, 0)
		samples = append(samples, map[string]any{"index": 0, "case": cs})
	}
	cov := map[string]any{
		"evaluations":         total.Evals,
		"cases":               total.Cases,
		"cases_planned":       n,
		"distinct_nontrivial": len(keys),
		"rule":                info.Rule,
		"samples":             samples,
		"observed":            total.Obs,
		"inconclusive":        total.Inconclusive,
		"inconclusive_cases":  inconAt,
		"known_findings_hit":  knownHits,
		"workers":             workers,
	}
	if info.Explanation != "" {
		cov["explanation"] = info.Explanation
	}
	level := info.Level
	if level == "" {
		level = "exploration"
	}
	ev := map[string]any{
		"property_id": o.Prop,
		"tier":        o.Tier,
		"seed":        o.Seed,
		"level":       level,
		"coverage":    cov,
		"assumptions": info.Assumptions,
		"wall_s":      wall,
		"violations":  len(unknown),
	}
	evDir := filepath.Join(o.VerifDir, "evidence")
	os.MkdirAll(evDir, 0o755)
	b, _ := json.MarshalIndent(ev, "", " ")
	if err := os.WriteFile(filepath.Join(evDir, o.Prop+".json"), append(b, '\n'), 0o644); err != nil {
		fmt.Fprintf(os.Stderr, "cannot write evidence: %v\n", err)
		return 2
	}
	ninc := 0
	for _, v := range total.Inconclusive {
		ninc += v
	}
	fmt.Printf("%s %s seed=%d: cases=%d/%d evaluations=%d distinct_nontrivial=%d violations=%d known=%d inconclusive=%d wall=%.1fs\n",
		o.Prop, o.Tier, o.Seed, total.Cases, n, total.Evals, len(keys), len(unknown), len(vios)-len(unknown), ninc, wall)
	if exit == 0 {
		// a run that observed nothing is a harness failure, not "held"
		if total.Cases == 0 || len(keys) < 2 {
			fmt.Fprintf(os.Stderr, "HARNESS ERROR: monitors observed too little (cases=%d of %d, nontrivial=%d)\n", total.Cases, n, len(keys))
			return 2
		}
	}
	return exit
}

type crashRec struct {
	Index  int
	Stderr string
}

type ReplayFile struct {
	Property string          `json:"property"`
	Tier     string          `json:"tier"`
	Seed     int64           `json:"seed"`
	Index    int             `json:"index"`
	Sig      string          `json:"sig"`
	Msg      string          `json:"msg"`
	Case     json.RawMessage `json:"case"`
	Original json.RawMessage `json:"original,omitempty"`
}

func crashSite(stderr string) string {
	if i := strings.Index(stderr, "WARNING: DATA RACE"); i >= 0 {
		// name the first library function of each of the two stacks
		var fns []string
		seen := map[string]bool{}
		for _, l := range strings.Split(stderr[i:], "\n") {
			l = strings.TrimSpace(l)
			if strings.HasPrefix(l, "codeberg.org/TauCeti/mangle-go/") {
				fn := strings.TrimPrefix(l, "codeberg.org/TauCeti/mangle-go/")
				if k := strings.Index(fn, "("); k > 0 && !strings.HasPrefix(fn, "(") {
					fn = fn[:k]
				}
				if !seen[fn] {
					seen[fn] = true
					fns = append(fns, fn)
				}
				if len(fns) == 2 {
					break
				}
			}
		}
		return "DATA RACE " + strings.Join(fns, " | ")
	}
	for _, l := range strings.Split(stderr, "\n") {
		if strings.HasPrefix(l, "fatal error:") || strings.HasPrefix(l, "panic:") || strings.HasPrefix(l, "WARNING: DATA RACE") {
			if len(l) > 80 {
				l = l[:80]
			}
			return l
		}
	}
	return "unknown"
}

func tailFile(path string, n int) string {
	b, err := os.ReadFile(path)
	if err != nil {
		return ""
	}
	// keep head (fatal error line is at the top of a goroutine dump)
	if len(b) > n {
		b = b[:n]
	}
	return string(b)
}

func runChild(o Options, info Info, from, stride, n int, journal, stderrPath string, timeout time.Duration) (last int, done bool, killed bool) {
	args := []string{"-prop", o.Prop, "-tier", o.Tier, "-seed", strconv.FormatInt(o.Seed, 10),
		"-worker-from", strconv.Itoa(from), "-worker-stride", strconv.Itoa(stride), "-worker-n", strconv.Itoa(n), "-journal", journal}
	args = append(args, o.SelfArgs...)
	cmd := exec.Command(o.Self, args...)
	ef, _ := os.Create(stderrPath)
	defer ef.Close()
	cmd.Stderr = ef
	cmd.Stdout = ef
	cmd.Env = append(os.Environ(), "GOMAXPROCS=2", "GOTRACEBACK=all")
	cmd.Env = append(cmd.Env, info.Env...)
	if err := cmd.Start(); err != nil {
		fmt.Fprintf(ef, "start: %v", err)
		return -1, false, false
	}
	exited := make(chan error, 1)
	go func() { exited <- cmd.Wait() }()
	// watchdog on journal progress
	var lastSize int64 = -1
	lastChange := time.Now()
	tick := time.NewTicker(500 * time.Millisecond)
	defer tick.Stop()
	for {
		select {
		case err := <-exited:
			return 0, err == nil, killed
		case <-tick.C:
			st, err := os.Stat(journal)
			var sz int64
			if err == nil {
				sz = st.Size()
			}
			if sz != lastSize {
				lastSize = sz
				lastChange = time.Now()
			} else if time.Since(lastChange) > timeout && !killed {
				killed = true
				cmd.Process.Signal(syscall.SIGQUIT)
				go func() {
					time.Sleep(3 * time.Second)
					cmd.Process.Kill()
				}()
			}
		}
	}
}

func parseJournal(path string) (aggs []*aggregate, vios []vioRec, lastStarted, lastEnded int, mem bool) {
	lastStarted, lastEnded = -1, -1
	f, err := os.Open(path)
	if err != nil {
		return
	}
	defer f.Close()
	sc := bufio.NewScanner(f)
	sc.Buffer(make([]byte, 1<<20), 1<<28)
	for sc.Scan() {
		l := sc.Text()
		if len(l) < 2 {
			continue
		}
		switch l[0] {
		case 'S':
			lastStarted, _ = strconv.Atoi(l[2:])
		case 'E':
			lastEnded, _ = strconv.Atoi(l[2:])
		case 'M':
			mem = true
		case 'A':
			a := newAgg()
			if json.Unmarshal([]byte(l[2:]), a) == nil {
				aggs = append(aggs, a)
			}
		case 'V':
			var v vioRec
			if json.Unmarshal([]byte(l[2:]), &v) == nil {
				vios = append(vios, v)
			}
		}
	}
	return
}

// Replay re-executes one recorded case in-process and prints the verdict.
func Replay(path string) int {
	b, err := os.ReadFile(path)
	if err != nil {
		fmt.Fprintln(os.Stderr, err)
		return 2
	}
	var rp ReplayFile
	if err := json.Unmarshal(b, &rp); err != nil {
		fmt.Fprintln(os.Stderr, err)
		return 2
	}
	p := Lookup(rp.Property)
	if p == nil {
		fmt.Fprintf(os.Stderr, "unknown property %s\n", rp.Property)
		return 2
	}
	c, err := p.Decode(rp.Case)
	if err != nil {
		fmt.Fprintf(os.Stderr, "decode: %v\n", err)
		return 2
	}
	res := runProtected(p, c)
	if len(res.Violations) == 0 {
		fmt.Printf("replay %s: property %s held on this case\n", path, rp.Property)
		return 0
	}
	for _, v := range res.Violations {
		fmt.Printf("VIOLATION property=%s replay=%s\n  sig=%s\n  %s\n", rp.Property, path, v.Sig, strings.ReplaceAll(v.Msg, "\n", "\n  "))
	}
	return 1
}

// ShrinkSlice greedily removes elements (chunks first, then single elements)
// while fails(items) stays true. fails must be deterministic.
func ShrinkSlice[T any](items []T, fails func([]T) bool) []T {
	cur := append([]T{}, items...)
	for chunk := len(cur) / 2; chunk >= 1; chunk /= 2 {
		for i := 0; i+chunk <= len(cur); {
			try := append(append([]T{}, cur[:i]...), cur[i+chunk:]...)
			if fails(try) {
				cur = try
			} else {
				i += chunk
			}
		}
	}
	return cur
}

var shrinkCount = map[string]int{}

// ShrinkAllowed limits the (expensive) minimisation work per worker process:
// the first few violations of each signature are minimised, the rest are
// reported as found. Keeps checks fast on trees that violate massively.
func ShrinkAllowed(sig string) bool {
	shrinkCount[sig]++
	return shrinkCount[sig] <= 2 && len(shrinkCount) <= 12
}
