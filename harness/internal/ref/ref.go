// Package ref is an independent reference evaluator for the Datalog fragment
// the workloads generate. It works on the harness's own JSON-level syntax
// trees (gen.ClauseV) and values (gen.Val) and shares no code with the
// library's engine, analysis, rewrite, unionfind, builtin or functional
// packages.
package ref

import (
	"errors"
	"fmt"
	"math"
	"sort"
	"strconv"
	"strings"

	"verif/internal/gen"
)

// ---------------------------------------------------------------------------
// values

// Key is an injective canonical string for a value (maps/structs sorted by key).
func Key(v gen.Val) string {
	var sb strings.Builder
	writeKey(&sb, v)
	return sb.String()
}

func writeKey(sb *strings.Builder, v gen.Val) {
	switch v.K {
	case "name", "str", "bytes":
		sb.WriteString(v.K[:1])
		sb.WriteString(strconv.Itoa(len(v.S)))
		sb.WriteByte(':')
		sb.WriteString(v.S)
	case "num":
		fmt.Fprintf(sb, "i%d;", v.N)
	case "float":
		fmt.Fprintf(sb, "f%x;", v.Bits)
	case "time":
		fmt.Fprintf(sb, "t%d;", v.N)
	case "dur":
		fmt.Fprintf(sb, "d%d;", v.N)
	case "pair", "list":
		sb.WriteString(v.K[:1])
		sb.WriteByte('(')
		for _, k := range v.Kids {
			writeKey(sb, k)
			sb.WriteByte(',')
		}
		sb.WriteByte(')')
	case "map", "struct":
		var ents []string
		for i := 0; i+1 < len(v.Kids); i += 2 {
			ents = append(ents, Key(v.Kids[i])+"=>"+Key(v.Kids[i+1]))
		}
		sort.Strings(ents)
		sb.WriteString(v.K[:1])
		sb.WriteByte('{')
		for _, e := range ents {
			sb.WriteString(strconv.Itoa(len(e)))
			sb.WriteByte(':')
			sb.WriteString(e)
		}
		sb.WriteByte('}')
	default:
		sb.WriteString("?" + v.K)
	}
}

// Fact is a ground atom of the reference model.
type Fact struct {
	P    string
	Args []gen.Val
}

func (f Fact) Key() string {
	var sb strings.Builder
	sb.WriteString(f.P)
	sb.WriteByte('/')
	sb.WriteString(strconv.Itoa(len(f.Args)))
	sb.WriteByte('(')
	for _, a := range f.Args {
		writeKey(&sb, a)
		sb.WriteByte('|')
	}
	sb.WriteByte(')')
	return sb.String()
}

func (f Fact) AtomV() gen.AtomV { return gen.AtomV{P: f.P, Args: f.Args} }

// Model is a set of facts indexed by predicate.
type Model struct {
	byPred map[string][]Fact // key pred/arity
	keys   map[string]bool
}

func NewModel() *Model { return &Model{byPred: map[string][]Fact{}, keys: map[string]bool{}} }

func pk(p string, n int) string { return p + "/" + strconv.Itoa(n) }

func (m *Model) Add(f Fact) bool {
	k := f.Key()
	if m.keys[k] {
		return false
	}
	m.keys[k] = true
	m.byPred[pk(f.P, len(f.Args))] = append(m.byPred[pk(f.P, len(f.Args))], f)
	return true
}
func (m *Model) Has(f Fact) bool { return m.keys[f.Key()] }
func (m *Model) Size() int       { return len(m.keys) }
func (m *Model) Facts(p string, n int) []Fact {
	return m.byPred[pk(p, n)]
}
func (m *Model) All() []Fact {
	var out []Fact
	var ps []string
	for p := range m.byPred {
		ps = append(ps, p)
	}
	sort.Strings(ps)
	for _, p := range ps {
		out = append(out, m.byPred[p]...)
	}
	return out
}
func (m *Model) Clone() *Model {
	c := NewModel()
	for _, f := range m.All() {
		c.Add(f)
	}
	return c
}

// ---------------------------------------------------------------------------
// errors

var (
	ErrUnsafe         = errors.New("ref: rule is not range restricted / has no evaluation order")
	ErrUnstratifiable = errors.New("ref: a dependency cycle passes through negation or aggregation")
	ErrTooLarge       = errors.New("ref: model exceeds the configured bound")
	ErrUnsupported    = errors.New("ref: construct outside the reference fragment")
	ErrEval           = errors.New("ref: function evaluation error")
	ErrBudget         = errors.New("ref: step budget exhausted")
)

// ---------------------------------------------------------------------------
// functions and built-in predicates (native)

type env map[string]gen.Val

func evalTerm(t gen.TermV, e env) (gen.Val, bool, error) {
	switch t.K {
	case "const":
		return *t.Val, true, nil
	case "var":
		if t.Name == "_" {
			return gen.Val{}, false, nil
		}
		v, ok := e[t.Name]
		return v, ok, nil
	case "fn":
		args := make([]gen.Val, len(t.Args))
		for i, a := range t.Args {
			v, ok, err := evalTerm(a, e)
			if err != nil || !ok {
				return gen.Val{}, ok, err
			}
			args[i] = v
		}
		v, err := ApplyFn(t.Name, args)
		return v, err == nil, err
	}
	return gen.Val{}, false, ErrUnsupported
}

func wantNum(v gen.Val) (int64, error) {
	if v.K != "num" {
		return 0, fmt.Errorf("%w: not a number: %s", ErrEval, Key(v))
	}
	return v.N, nil
}

// ApplyFn implements the documented meaning of the functions the workloads use.
func ApplyFn(name string, args []gen.Val) (gen.Val, error) {
	switch name {
	case "fn:plus", "fn:mult", "fn:minus":
		if len(args) == 0 {
			return gen.Val{}, fmt.Errorf("%w: %s()", ErrEval, name)
		}
		acc, err := wantNum(args[0])
		if err != nil {
			return gen.Val{}, err
		}
		if name == "fn:minus" && len(args) == 1 {
			return gen.Num(-acc), nil
		}
		for _, a := range args[1:] {
			n, err := wantNum(a)
			if err != nil {
				return gen.Val{}, err
			}
			switch name {
			case "fn:plus":
				acc += n
			case "fn:mult":
				acc *= n
			default:
				acc -= n
			}
		}
		return gen.Num(acc), nil
	case "fn:list":
		return gen.Val{K: "list", Kids: append([]gen.Val{}, args...)}, nil
	case "fn:pair":
		if len(args) != 2 {
			return gen.Val{}, fmt.Errorf("%w: fn:pair/%d", ErrEval, len(args))
		}
		return gen.PairV(args[0], args[1]), nil
	case "fn:list:cons", "fn:cons":
		if len(args) != 2 || args[1].K != "list" {
			return gen.Val{}, fmt.Errorf("%w: cons onto non-list", ErrEval)
		}
		return gen.Val{K: "list", Kids: append([]gen.Val{args[0]}, args[1].Kids...)}, nil
	case "fn:list:append":
		if len(args) != 2 || args[0].K != "list" {
			return gen.Val{}, fmt.Errorf("%w: append to non-list", ErrEval)
		}
		return gen.Val{K: "list", Kids: append(append([]gen.Val{}, args[0].Kids...), args[1])}, nil
	case "fn:list:len", "fn:len":
		if len(args) != 1 || args[0].K != "list" {
			return gen.Val{}, fmt.Errorf("%w: len of non-list", ErrEval)
		}
		return gen.Num(int64(len(args[0].Kids))), nil
	case "fn:list:get":
		if len(args) != 2 || args[0].K != "list" || args[1].K != "num" {
			return gen.Val{}, fmt.Errorf("%w: list:get", ErrEval)
		}
		i := args[1].N
		if i < 0 || i >= int64(len(args[0].Kids)) {
			return gen.Val{}, fmt.Errorf("%w: index out of bounds", ErrEval)
		}
		return args[0].Kids[i], nil
	case "fn:string:concat":
		var sb strings.Builder
		for _, a := range args {
			switch a.K {
			case "str", "name":
				sb.WriteString(a.S)
			case "num":
				sb.WriteString(strconv.FormatInt(a.N, 10))
			default:
				return gen.Val{}, fmt.Errorf("%w: concat of %s", ErrEval, a.K)
			}
		}
		return gen.Str(sb.String()), nil
	}
	return gen.Val{}, fmt.Errorf("%w: function %s", ErrUnsupported, name)
}

// builtin predicates: returns list of extended environments.
func isBuiltin(p string) bool { return strings.HasPrefix(p, ":") }

// decideBuiltin evaluates a built-in atom. ready=false means inputs are not bound yet.
func decideBuiltin(l gen.LitV, e env) (outs []env, ready bool, err error) {
	val := func(i int) (gen.Val, bool, error) { return evalTerm(l.Args[i], e) }
	switch l.Pred {
	case ":lt", ":le", ":gt", ":ge":
		a, ok1, err := val(0)
		if err != nil {
			return nil, true, err
		}
		b, ok2, err := val(1)
		if err != nil {
			return nil, true, err
		}
		if !ok1 || !ok2 {
			return nil, false, nil
		}
		x, err := wantNum(a)
		if err != nil {
			return nil, true, err
		}
		y, err := wantNum(b)
		if err != nil {
			return nil, true, err
		}
		var r bool
		switch l.Pred {
		case ":lt":
			r = x < y
		case ":le":
			r = x <= y
		case ":gt":
			r = x > y
		default:
			r = x >= y
		}
		if r {
			return []env{e}, true, nil
		}
		return nil, true, nil
	case ":match_cons", ":match_pair":
		a, ok, err := val(0)
		if err != nil {
			return nil, true, err
		}
		if !ok {
			return nil, false, nil
		}
		var h, t gen.Val
		if l.Pred == ":match_cons" {
			if a.K != "list" || len(a.Kids) == 0 {
				return nil, true, nil
			}
			h, t = a.Kids[0], gen.Val{K: "list", Kids: append([]gen.Val{}, a.Kids[1:]...)}
		} else {
			if a.K != "pair" {
				return nil, true, nil
			}
			h, t = a.Kids[0], a.Kids[1]
		}
		e2, ok := bindTerm(l.Args[1], h, e)
		if !ok {
			return nil, true, nil
		}
		e3, ok := bindTerm(l.Args[2], t, e2)
		if !ok {
			return nil, true, nil
		}
		return []env{e3}, true, nil
	case ":match_nil":
		a, ok, err := val(0)
		if err != nil {
			return nil, true, err
		}
		if !ok {
			return nil, false, nil
		}
		if a.K == "list" && len(a.Kids) == 0 {
			return []env{e}, true, nil
		}
		return nil, true, nil
	case ":list:member":
		lst, ok, err := val(1)
		if err != nil {
			return nil, true, err
		}
		if !ok {
			return nil, false, nil
		}
		if lst.K != "list" {
			return nil, true, nil
		}
		seen := map[string]bool{}
		for _, x := range lst.Kids {
			if e2, ok := bindTerm(l.Args[0], x, e); ok {
				k := envKey(e2)
				if !seen[k] {
					seen[k] = true
					outs = append(outs, e2)
				}
			}
		}
		return outs, true, nil
	}
	return nil, true, fmt.Errorf("%w: predicate %s", ErrUnsupported, l.Pred)
}

func envKey(e env) string {
	var ks []string
	for k := range e {
		ks = append(ks, k)
	}
	sort.Strings(ks)
	var sb strings.Builder
	for _, k := range ks {
		sb.WriteString(k)
		sb.WriteByte('=')
		sb.WriteString(Key(e[k]))
		sb.WriteByte(';')
	}
	return sb.String()
}

// bindTerm unifies a term pattern (variable, wildcard, constant or evaluable
// expression) with a value.
func bindTerm(t gen.TermV, v gen.Val, e env) (env, bool) {
	switch t.K {
	case "var":
		if t.Name == "_" {
			return e, true
		}
		if cur, ok := e[t.Name]; ok {
			return e, Key(cur) == Key(v)
		}
		e2 := make(env, len(e)+1)
		for k, x := range e {
			e2[k] = x
		}
		e2[t.Name] = v
		return e2, true
	default:
		x, ok, err := evalTerm(t, e)
		if err != nil || !ok {
			return e, false
		}
		return e, Key(x) == Key(v)
	}
}

// termVars collects named variables of a term.
func termVars(t gen.TermV, out map[string]bool) {
	switch t.K {
	case "var":
		if t.Name != "_" {
			out[t.Name] = true
		}
	case "fn":
		for _, a := range t.Args {
			termVars(a, out)
		}
	}
}

func litVars(l gen.LitV) map[string]bool {
	out := map[string]bool{}
	for _, a := range l.Args {
		termVars(a, out)
	}
	if l.L != nil {
		termVars(*l.L, out)
		termVars(*l.R, out)
	}
	return out
}

func allBound(vs map[string]bool, e env) bool {
	for v := range vs {
		if _, ok := e[v]; !ok {
			return false
		}
	}
	return true
}

// ---------------------------------------------------------------------------
// rule bodies

// Solve enumerates the distinct assignments (to the named variables of the
// body) under which every literal holds in m. neg is the model negated atoms
// are judged against (the completed lower strata; callers pass the same model
// when stratification guarantees it is complete for the negated predicates).
// stepBudget, when positive, is decremented by every search step of Solve;
// Eval sets it from Options.MaxSteps (single-threaded use per process).
var stepBudget int64

func Solve(body []gen.LitV, m *Model, neg *Model) ([]env, error) {
	type state struct {
		e    env
		done []bool
	}
	start := state{env{}, make([]bool, len(body))}
	var results []env
	seen := map[string]bool{}
	var rec func(s state) error
	steps := 0
	rec = func(s state) error {
		steps++
		if steps > 2_000_000 {
			return ErrTooLarge
		}
		if stepBudget > 0 {
			stepBudget--
			if stepBudget == 0 {
				stepBudget = -1
			}
		}
		if stepBudget < 0 {
			return ErrBudget
		}
		// pick a ready literal: prefer cheap deterministic ones
		pick := -1
		pickKind := 9
		remaining := 0
		for i, l := range body {
			if s.done[i] {
				continue
			}
			remaining++
			kind := 9
			switch l.K {
			case "eq":
				_, okL, _ := evalTerm(*l.L, s.e)
				_, okR, _ := evalTerm(*l.R, s.e)
				lv := l.L.K == "var"
				rv := l.R.K == "var"
				if (okL && okR) || (okL && rv) || (okR && lv) {
					kind = 0
				}
			case "ineq":
				if allBound(litVars(l), s.e) {
					kind = 1
				}
			case "neg":
				if allBound(litVars(l), s.e) {
					kind = 1
				}
			case "atom":
				if isBuiltin(l.Pred) {
					_, ready, _ := decideBuiltin(l, s.e)
					if ready {
						kind = 2
					}
				} else {
					// function expressions among the arguments are inputs: the atom can only be looked up
					// once their variables have values
					kind = 3
					for _, a := range l.Args {
						if a.K == "fn" {
							vs := map[string]bool{}
							termVars(a, vs)
							if !allBound(vs, s.e) {
								kind = 9
							}
						}
					}
				}
			default:
				return ErrUnsupported
			}
			if kind < pickKind {
				pick, pickKind = i, kind
			}
		}
		if remaining == 0 {
			k := envKey(s.e)
			if !seen[k] {
				seen[k] = true
				results = append(results, s.e)
			}
			return nil
		}
		if pick < 0 || pickKind == 9 {
			return ErrUnsafe
		}
		l := body[pick]
		nd := append([]bool{}, s.done...)
		nd[pick] = true
		next := func(e env) error { return rec(state{e, nd}) }
		switch l.K {
		case "eq":
			a, okL, errL := evalTerm(*l.L, s.e)
			b, okR, errR := evalTerm(*l.R, s.e)
			if errL != nil {
				return errL
			}
			if errR != nil {
				return errR
			}
			switch {
			case okL && okR:
				if Key(a) == Key(b) {
					return next(s.e)
				}
			case okL:
				if e2, ok := bindTerm(*l.R, a, s.e); ok {
					return next(e2)
				}
			default:
				if e2, ok := bindTerm(*l.L, b, s.e); ok {
					return next(e2)
				}
			}
			return nil
		case "ineq":
			a, _, errL := evalTerm(*l.L, s.e)
			b, _, errR := evalTerm(*l.R, s.e)
			if errL != nil {
				return errL
			}
			if errR != nil {
				return errR
			}
			if Key(a) != Key(b) {
				return next(s.e)
			}
			return nil
		case "neg":
			if isBuiltin(l.Pred) {
				outs, _, err := decideBuiltin(l, s.e)
				if err != nil {
					return err
				}
				if len(outs) == 0 {
					return next(s.e)
				}
				return nil
			}
			for _, f := range neg.Facts(l.Pred, len(l.Args)) {
				if _, ok := matchAtom(l.Args, f.Args, s.e); ok {
					return nil // some matching tuple exists
				}
			}
			return next(s.e)
		case "atom":
			if isBuiltin(l.Pred) {
				outs, _, err := decideBuiltin(l, s.e)
				if err != nil {
					return err
				}
				for _, e2 := range outs {
					if err := next(e2); err != nil {
						return err
					}
				}
				return nil
			}
			for _, f := range m.Facts(l.Pred, len(l.Args)) {
				if e2, ok := matchAtom(l.Args, f.Args, s.e); ok {
					if err := next(e2); err != nil {
						return err
					}
				}
			}
			return nil
		}
		return ErrUnsupported
	}
	if err := rec(start); err != nil {
		return nil, err
	}
	return results, nil
}

func matchAtom(pats []gen.TermV, vals []gen.Val, e env) (env, bool) {
	cur := e
	for i, p := range pats {
		var ok bool
		cur, ok = bindTerm(p, vals[i], cur)
		if !ok {
			return e, false
		}
	}
	return cur, true
}

// ---------------------------------------------------------------------------
// reducers

func reduce(fn gen.TermV, rows []env) (gen.Val, error) {
	col := func() ([]gen.Val, error) {
		if len(fn.Args) != 1 || fn.Args[0].K != "var" {
			return nil, ErrUnsupported
		}
		var out []gen.Val
		for _, r := range rows {
			v, ok := r[fn.Args[0].Name]
			if !ok {
				return nil, ErrUnsafe
			}
			out = append(out, v)
		}
		return out, nil
	}
	switch fn.Name {
	case "fn:count":
		return gen.Num(int64(len(rows))), nil
	case "fn:sum", "fn:min", "fn:max":
		vs, err := col()
		if err != nil {
			return gen.Val{}, err
		}
		var acc int64
		for i, v := range vs {
			n, err := wantNum(v)
			if err != nil {
				return gen.Val{}, err
			}
			switch {
			case fn.Name == "fn:sum":
				acc += n
			case i == 0:
				acc = n
			case fn.Name == "fn:min" && n < acc:
				acc = n
			case fn.Name == "fn:max" && n > acc:
				acc = n
			}
		}
		return gen.Num(acc), nil
	case "fn:avg":
		vs, err := col()
		if err != nil {
			return gen.Val{}, err
		}
		var sum int64
		for _, v := range vs {
			n, err := wantNum(v)
			if err != nil {
				return gen.Val{}, err
			}
			sum += n
		}
		return gen.Float(float64(sum) / float64(len(vs))), nil
	case "fn:collect_distinct":
		vs, err := col()
		if err != nil {
			return gen.Val{}, err
		}
		seen := map[string]bool{}
		var ks []string
		byKey := map[string]gen.Val{}
		for _, v := range vs {
			k := Key(v)
			if !seen[k] {
				seen[k] = true
				ks = append(ks, k)
				byKey[k] = v
			}
		}
		sort.Strings(ks)
		out := gen.Val{K: "list"}
		for _, k := range ks {
			out.Kids = append(out.Kids, byKey[k])
		}
		return out, nil // compared as a set by the caller
	}
	return gen.Val{}, fmt.Errorf("%w: reducer %s", ErrUnsupported, fn.Name)
}

// SetColumns reports which head positions hold collect_distinct results (to be compared as sets).
type Derived struct {
	Fact Fact
	// SetCols lists argument positions whose list value must be read as a set.
	SetCols []int
}

// ApplyRule computes the facts one rule derives from model m (negation against neg).
func ApplyRule(c gen.ClauseV, m, neg *Model) ([]Derived, error) {
	rows, err := Solve(c.Body, m, neg)
	if err != nil {
		return nil, err
	}
	head := func(e env, setVars map[string]bool) (Derived, error) {
		d := Derived{Fact: Fact{P: c.Head.Pred}}
		for i, a := range c.Head.Args {
			v, ok, err := evalTerm(a, e)
			if err != nil {
				return d, err
			}
			if !ok {
				return d, ErrUnsafe
			}
			d.Fact.Args = append(d.Fact.Args, v)
			if a.K == "var" && setVars[a.Name] {
				d.SetCols = append(d.SetCols, i)
			}
		}
		return d, nil
	}
	if len(c.Transforms) == 0 {
		var out []Derived
		for _, e := range rows {
			d, err := head(e, nil)
			if err != nil {
				return nil, err
			}
			out = append(out, d)
		}
		return out, nil
	}
	if len(c.Transforms) > 1 {
		return nil, ErrUnsupported
	}
	stmts := c.Transforms[0]
	if stmts[0].Var != "" { // let transform
		var out []Derived
		for _, e := range rows {
			cur := e
			for _, s := range stmts {
				v, ok, err := evalTerm(s.Fn, cur)
				if err != nil {
					return nil, err
				}
				if !ok {
					return nil, ErrUnsafe
				}
				e2 := make(env, len(cur)+1)
				for k, x := range cur {
					e2[k] = x
				}
				e2[s.Var] = v
				cur = e2
			}
			d, err := head(cur, nil)
			if err != nil {
				return nil, err
			}
			out = append(out, d)
		}
		return out, nil
	}
	// do transform: group_by
	if stmts[0].Fn.Name != "fn:group_by" {
		return nil, ErrUnsupported
	}
	type group struct {
		key  env
		rows []env
	}
	groups := map[string]*group{}
	var order []string
	for _, e := range rows {
		ke := env{}
		for _, kv := range stmts[0].Fn.Args {
			if kv.K != "var" {
				return nil, ErrUnsupported
			}
			v, ok := e[kv.Name]
			if !ok {
				return nil, ErrUnsafe
			}
			ke[kv.Name] = v
		}
		k := envKey(ke)
		g, ok := groups[k]
		if !ok {
			g = &group{key: ke}
			groups[k] = g
			order = append(order, k)
		}
		g.rows = append(g.rows, e)
	}
	var out []Derived
	for _, k := range order {
		g := groups[k]
		cur := env{}
		for n, v := range g.key {
			cur[n] = v
		}
		setVars := map[string]bool{}
		for _, s := range stmts[1:] {
			var v gen.Val
			var err error
			switch s.Fn.Name {
			case "fn:count", "fn:sum", "fn:min", "fn:max", "fn:avg", "fn:collect_distinct":
				v, err = reduce(s.Fn, g.rows)
				if s.Fn.Name == "fn:collect_distinct" {
					setVars[s.Var] = true
				}
			default:
				var ok bool
				v, ok, err = evalTerm(s.Fn, cur)
				if err == nil && !ok {
					err = ErrUnsafe
				}
			}
			if err != nil {
				return nil, err
			}
			cur[s.Var] = v
		}
		d, err := head(cur, setVars)
		if err != nil {
			return nil, err
		}
		out = append(out, d)
	}
	return out, nil
}

// ---------------------------------------------------------------------------
// stratified evaluation

type Program struct {
	Rules []gen.ClauseV // clauses with a body
	Facts []gen.AtomV   // base facts (incl. bodiless clauses)
}

func isDo(c gen.ClauseV) bool {
	return len(c.Transforms) > 0 && len(c.Transforms[0]) > 0 && c.Transforms[0][0].Var == ""
}

type Options struct {
	MaxFacts int
	MaxSteps int64 // 0 = 20 million
}

type Result struct {
	Model *Model
	// SetCols: fact key -> positions to be compared as sets
	SetCols map[string][]int
	// Strata lists the head predicates (pred/arity) per stratum in evaluation order.
	Strata [][]string
	Rounds int
}

// Eval computes the stratified least model.
func Eval(p Program, o Options) (*Result, error) {
	if o.MaxFacts == 0 {
		o.MaxFacts = 3000
	}
	if o.MaxSteps == 0 {
		// a generous default: a minimisation step may delete the join condition that kept the search small
		o.MaxSteps = 20_000_000
	}
	stepBudget = o.MaxSteps
	defer func() { stepBudget = 0 }()
	heads := map[string]bool{}
	for _, r := range p.Rules {
		heads[pk(r.Head.Pred, len(r.Head.Args))] = true
	}
	var nodes []string
	for h := range heads {
		nodes = append(nodes, h)
	}
	sort.Strings(nodes)
	idx := map[string]int{}
	for i, n := range nodes {
		idx[n] = i
	}
	adj := make([][]int, len(nodes))
	type edge struct{ a, b int }
	negE := map[edge]bool{}
	for _, r := range p.Rules {
		h := idx[pk(r.Head.Pred, len(r.Head.Args))]
		for _, l := range r.Body {
			if l.K != "atom" && l.K != "neg" {
				if l.K == "temporal" {
					return nil, ErrUnsupported
				}
				continue
			}
			if isBuiltin(l.Pred) {
				continue
			}
			t, ok := idx[pk(l.Pred, len(l.Args))]
			if !ok {
				continue
			}
			adj[h] = append(adj[h], t)
			if l.K == "neg" || isDo(r) {
				negE[edge{h, t}] = true
			}
		}
	}
	comp := sccs(len(nodes), adj) // comp ids in reverse topological order of the condensation (Tarjan)
	for e := range negE {
		if comp[e.a] == comp[e.b] {
			return nil, ErrUnstratifiable
		}
	}
	ncomp := 0
	for _, c := range comp {
		if c+1 > ncomp {
			ncomp = c + 1
		}
	}
	res := &Result{Model: NewModel(), SetCols: map[string][]int{}}
	for _, f := range p.Facts {
		res.Model.Add(Fact{P: f.P, Args: f.Args})
	}
	// Tarjan numbers components so that a component only depends on components with smaller ids.
	for c := 0; c < ncomp; c++ {
		var plain, dos []gen.ClauseV
		var names []string
		for i, n := range nodes {
			if comp[i] == c {
				names = append(names, n)
			}
		}
		for _, r := range p.Rules {
			if comp[idx[pk(r.Head.Pred, len(r.Head.Args))]] != c {
				continue
			}
			if isDo(r) {
				dos = append(dos, r)
			} else {
				plain = append(plain, r)
			}
		}
		res.Strata = append(res.Strata, names)
		for {
			res.Rounds++
			added := false
			for _, r := range plain {
				ds, err := ApplyRule(r, res.Model, res.Model)
				if err != nil {
					return nil, err
				}
				for _, d := range ds {
					if res.Model.Add(d.Fact) {
						added = true
						if res.Model.Size() > o.MaxFacts {
							return res, ErrTooLarge // partial model, for diagnosis only
						}
					}
				}
			}
			if !added {
				break
			}
		}
		for _, r := range dos {
			ds, err := ApplyRule(r, res.Model, res.Model)
			if err != nil {
				return nil, err
			}
			for _, d := range ds {
				res.Model.Add(d.Fact)
				if len(d.SetCols) > 0 {
					res.SetCols[d.Fact.Key()] = d.SetCols
				}
			}
		}
	}
	return res, nil
}

func sccs(n int, adj [][]int) []int {
	index := make([]int, n)
	low := make([]int, n)
	on := make([]bool, n)
	comp := make([]int, n)
	for i := range index {
		index[i] = -1
		comp[i] = -1
	}
	var stack []int
	next, nc := 0, 0
	var visit func(v int)
	visit = func(v int) {
		index[v], low[v] = next, next
		next++
		stack = append(stack, v)
		on[v] = true
		for _, w := range adj[v] {
			if index[w] < 0 {
				visit(w)
				if low[w] < low[v] {
					low[v] = low[w]
				}
			} else if on[w] && index[w] < low[v] {
				low[v] = index[w]
			}
		}
		if low[v] == index[v] {
			for {
				w := stack[len(stack)-1]
				stack = stack[:len(stack)-1]
				on[w] = false
				comp[w] = nc
				if w == v {
					break
				}
			}
			nc++
		}
	}
	for v := 0; v < n; v++ {
		if index[v] < 0 {
			visit(v)
		}
	}
	return comp
}

// ---------------------------------------------------------------------------
// brute-force cross-check: closure and supportedness of a model, evaluated by
// enumerating assignments over the active domain (no join scheduling).

// holdsGround decides a body under a *total* assignment of its named variables.
func holdsGround(body []gen.LitV, e env, m *Model) (bool, error) {
	for _, l := range body {
		switch l.K {
		case "atom", "neg":
			var found bool
			if isBuiltin(l.Pred) {
				outs, ready, err := decideBuiltin(l, e)
				if err != nil {
					return false, err
				}
				if !ready {
					return false, ErrUnsafe
				}
				found = len(outs) > 0
			} else {
				for _, f := range m.Facts(l.Pred, len(l.Args)) {
					if _, ok := matchAtom(l.Args, f.Args, e); ok {
						found = true
						break
					}
				}
			}
			if found != (l.K == "atom") {
				return false, nil
			}
		case "eq", "ineq":
			a, ok1, err := evalTerm(*l.L, e)
			if err != nil {
				return false, nil // an erroring expression derives nothing
			}
			b, ok2, err := evalTerm(*l.R, e)
			if err != nil {
				return false, nil
			}
			if !ok1 || !ok2 {
				return false, ErrUnsafe
			}
			if (Key(a) == Key(b)) != (l.K == "eq") {
				return false, nil
			}
		default:
			return false, ErrUnsupported
		}
	}
	return true, nil
}

// BruteCheck verifies that model m (for a transform-free program) is closed
// under the rules and that every non-base fact is supported. It returns a
// description of the first problem found, or "".
func BruteCheck(p Program, m *Model, maxAssignments int) (string, error) {
	// active domain
	dom := map[string]gen.Val{}
	addVal := func(v gen.Val) { dom[Key(v)] = v }
	for _, f := range m.All() {
		for _, a := range f.Args {
			addVal(a)
			if a.K == "list" || a.K == "pair" {
				for _, k := range a.Kids {
					addVal(k)
				}
				if a.K == "list" && len(a.Kids) > 0 {
					addVal(gen.Val{K: "list", Kids: a.Kids[1:]})
				}
			}
		}
	}
	// Function expressions in a body can create intermediate values outside the active domain
	// (N3 = fn:plus(N2,1), head p(N2, fn:plus(N3,1))): enumeration then cannot find the supporting
	// instance, so a missing support is not a verdict for such programs (closedness still is).
	hasFn := false
	var walkT func(t gen.TermV)
	walkT = func(t gen.TermV) {
		if t.K == "const" {
			addVal(*t.Val)
		}
		if t.K == "fn" {
			hasFn = true
		}
		for _, a := range t.Args {
			walkT(a)
		}
	}
	for _, r := range p.Rules {
		for _, l := range r.Body {
			for _, a := range l.Args {
				walkT(a)
			}
			if l.L != nil {
				walkT(*l.L)
				walkT(*l.R)
			}
		}
	}
	var ks []string
	for k := range dom {
		ks = append(ks, k)
	}
	sort.Strings(ks)
	base := map[string]bool{}
	for _, f := range p.Facts {
		base[Fact{P: f.P, Args: f.Args}.Key()] = true
	}
	supported := map[string]bool{}
	budget := maxAssignments
	for _, r := range p.Rules {
		if len(r.Transforms) > 0 {
			return "", ErrUnsupported
		}
		vs := map[string]bool{}
		for _, l := range r.Body {
			for v := range litVars(l) {
				vs[v] = true
			}
		}
		var names []string
		for v := range vs {
			names = append(names, v)
		}
		sort.Strings(names)
		total := math.Pow(float64(len(ks)), float64(len(names)))
		if total > float64(budget) {
			return "", ErrTooLarge
		}
		budget -= int(total)
		e := env{}
		var rec func(i int) (string, error)
		rec = func(i int) (string, error) {
			if i == len(names) {
				ok, err := holdsGround(r.Body, e, m)
				if err != nil || !ok {
					return "", err
				}
				h := Fact{P: r.Head.Pred}
				for _, a := range r.Head.Args {
					v, okv, err := evalTerm(a, e)
					if err != nil {
						return "", nil
					}
					if !okv {
						return "", ErrUnsafe
					}
					h.Args = append(h.Args, v)
				}
				if !m.Has(h) {
					return fmt.Sprintf("not closed: rule for %s with assignment %s derives %s which is absent", r.Head.Pred, envKey(e), h.Key()), nil
				}
				supported[h.Key()] = true
				return "", nil
			}
			for _, k := range ks {
				e[names[i]] = dom[k]
				if msg, err := rec(i + 1); msg != "" || err != nil {
					return msg, err
				}
			}
			delete(e, names[i])
			return "", nil
		}
		if msg, err := rec(0); msg != "" || err != nil {
			return msg, err
		}
	}
	for _, f := range m.All() {
		k := f.Key()
		if !base[k] && !supported[k] {
			if hasFn {
				return "", fmt.Errorf("support of %s cannot be decided by enumeration over the active domain (function expressions in rule bodies)", k)
			}
			return fmt.Sprintf("unsupported: %s is neither a base fact nor the head of a rule instance whose body holds", k), nil
		}
	}
	return "", nil
}

// ---------------------------------------------------------------------------
// static safety judge (range restriction), independent of data and of premise order

// Safe decides whether every head variable, every named variable of a negated
// atom, every operand of an (in)equality / comparison / built-in input and
// every function argument can receive a value from a positive body atom, an
// equality or a transform. why names the first offending element.
func Safe(c gen.ClauseV) (ok bool, why string) {
	bound := map[string]bool{}
	termBound := func(t gen.TermV) bool {
		vs := map[string]bool{}
		termVars(t, vs)
		for v := range vs {
			if !bound[v] {
				return false
			}
		}
		return true
	}
	hasWildcard := func(t gen.TermV) bool {
		found := false
		var w func(t gen.TermV)
		w = func(t gen.TermV) {
			if t.K == "var" && t.Name == "_" {
				found = true
			}
			for _, a := range t.Args {
				w(a)
			}
		}
		w(t)
		return found
	}
	bindVarsOf := func(t gen.TermV) {
		vs := map[string]bool{}
		termVars(t, vs)
		for v := range vs {
			bound[v] = true
		}
	}
	for changed := true; changed; {
		changed = false
		n := len(bound)
		for _, l := range c.Body {
			switch l.K {
			case "atom":
				if !isBuiltin(l.Pred) {
					for _, a := range l.Args {
						if a.K == "var" {
							bindVarsOf(a)
						}
						// function expressions inside atoms are inputs, they bind nothing
					}
					continue
				}
				switch l.Pred {
				case ":match_cons", ":match_pair":
					if len(l.Args) == 3 && termBound(l.Args[0]) {
						bindVarsOf(l.Args[1])
						bindVarsOf(l.Args[2])
					}
				case ":list:member":
					if len(l.Args) == 2 && termBound(l.Args[1]) {
						bindVarsOf(l.Args[0])
					}
				}
			case "eq":
				lv := l.L.K == "var" && l.L.Name != "_"
				rv := l.R.K == "var" && l.R.Name != "_"
				if termBound(*l.L) && !hasWildcard(*l.L) && rv {
					bound[l.R.Name] = true
				}
				if termBound(*l.R) && !hasWildcard(*l.R) && lv {
					bound[l.L.Name] = true
				}
			}
		}
		if len(bound) != n {
			changed = true
		}
	}
	// transforms
	defs := map[string]bool{}
	for _, stmts := range c.Transforms {
		for _, s := range stmts {
			if s.Var != "" {
				defs[s.Var] = true
			}
		}
	}
	for _, l := range c.Body {
		switch l.K {
		case "neg":
			for _, a := range l.Args {
				if !termBound(a) {
					return false, "negated-atom-variable"
				}
				if a.K == "fn" && hasWildcard(a) {
					return false, "wildcard-in-function"
				}
			}
		case "eq", "ineq":
			if !termBound(*l.L) || !termBound(*l.R) {
				if l.K == "ineq" {
					return false, "inequality-operand"
				}
				return false, "equality-operand"
			}
			isWild := func(t gen.TermV) bool { return t.K == "var" && t.Name == "_" }
			if l.K == "eq" && (isWild(*l.L) != isWild(*l.R)) && !hasWildcard(map[bool]gen.TermV{true: *l.R, false: *l.L}[isWild(*l.L)]) {
				break // "expr = _" is a binding that is thrown away: always satisfiable
			}
			if hasWildcard(*l.L) || hasWildcard(*l.R) {
				return false, "wildcard-operand"
			}
		case "atom":
			for i, a := range l.Args {
				if isBuiltin(l.Pred) {
					if !termBound(a) {
						return false, "builtin-operand"
					}
					input := true
					switch l.Pred {
					case ":match_cons", ":match_pair":
						input = i == 0
					case ":list:member":
						input = i == 1
					}
					if input && hasWildcard(a) {
						return false, "wildcard-operand"
					}
				} else if a.K == "fn" {
					if !termBound(a) {
						return false, "function-argument"
					}
					if hasWildcard(a) {
						return false, "wildcard-in-function"
					}
				}
			}
		}
	}
	for _, stmts := range c.Transforms {
		if len(stmts) > 0 && stmts[0].Var == "" && stmts[0].Fn.Name == "fn:group_by" {
			// the group key is a list of distinct variables of the body (documented form: fn:group_by(X, Y))
			for _, k := range stmts[0].Fn.Args {
				if k.K != "var" || k.Name == "_" {
					return false, "group-key-not-a-variable"
				}
			}
		}
	}
	for _, stmts := range c.Transforms {
		isLet := len(stmts) > 0 && stmts[0].Var != ""
		sofar := map[string]bool{}
		for _, s := range stmts {
			vs := map[string]bool{}
			termVars(s.Fn, vs)
			for v := range vs {
				if !bound[v] && !defs[v] {
					return false, "transform-argument"
				}
				if isLet && !bound[v] && !sofar[v] {
					// let statements are evaluated in order: a statement can only use what the body or an
					// earlier statement defines
					return false, "transform-forward-reference"
				}
			}
			if s.Var != "" {
				sofar[s.Var] = true
			}
		}
	}
	for _, a := range c.Head.Args {
		vs := map[string]bool{}
		termVars(a, vs)
		for v := range vs {
			if !bound[v] && !defs[v] {
				return false, "head-variable"
			}
		}
		if hasWildcard(a) {
			return false, "head-wildcard"
		}
	}
	return true, ""
}
