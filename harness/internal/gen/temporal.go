package gen

import (
	"fmt"
	"math/rand"
)

// Temporal workloads: a discrete timeline in whole hours around a fixed evaluation time.

// EvalTimeNanos is 2024-01-10T12:00:00Z.
const EvalTimeNanos int64 = 1704888000_000000000

const Hour int64 = 3600_000_000_000

type TFactV struct {
	Atom AtomV `json:"atom"`
	Iv   IvV   `json:"iv"`
}

type TProgramV struct {
	TFacts []TFactV  `json:"tfacts"` // temporal base facts
	Facts  []AtomV   `json:"facts"`  // ordinary base facts
	Rules  []ClauseV `json:"rules"`
}

func HourTS(h int) BoundV { return BoundV{K: "ts", T: EvalTimeNanos + int64(h)*Hour} }

func durH(h int) BoundV { return BoundV{K: "dur", T: int64(h) * Hour} }

// RandTemporalFacts generates finite-interval facts for predicate p/1 over values 0..n-1.
func RandTemporalFacts(r *rand.Rand, p string, nvals, nfacts, span int) []TFactV {
	var out []TFactV
	for i := 0; i < nfacts; i++ {
		a := r.Intn(2*span+1) - span
		b := a + r.Intn(span/2+1)
		if r.Intn(6) == 0 {
			b = a
		}
		out = append(out, TFactV{Atom: AtomV{P: p, Args: []Val{Num(int64(r.Intn(nvals)))}}, Iv: IvV{S: HourTS(a), E: HourTS(b)}})
	}
	return out
}

func tlit(pred string, arg TermV, op *OpV, iv *IvV) LitV {
	return LitV{K: "temporal", Pred: pred, Args: []TermV{arg}, Op: op, Iv: iv}
}

func varIv(s, e string) *IvV {
	return &IvV{S: BoundV{K: "var", V: s}, E: BoundV{K: "var", V: e}}
}

// RandTemporalProgram generates chains and diamonds of rules over temporal
// predicates: interval-propagating rules, rules with the four operators over
// base and derived temporal predicates, and non-temporal consumers.
func RandTemporalProgram(r *rand.Rand) TProgramV {
	var p TProgramV
	p.TFacts = append(p.TFacts, RandTemporalFacts(r, "t0", 4, 2+r.Intn(6), 10)...)
	if r.Intn(2) == 0 {
		p.TFacts = append(p.TFacts, RandTemporalFacts(r, "t1", 4, 1+r.Intn(5), 10)...)
	} else {
		p.TFacts = append(p.TFacts, TFactV{Atom: AtomV{P: "t1", Args: []Val{Num(0)}}, Iv: IvV{S: HourTS(-3), E: HourTS(3)}})
	}
	for i := 0; i < 4; i++ {
		if r.Intn(2) == 0 {
			p.Facts = append(p.Facts, AtomV{P: "e", Args: []Val{Num(int64(i))}})
		}
	}
	x := VarT("X")
	temporalPreds := []string{"t0", "t1"}
	nd := 1 + r.Intn(3)
	for i := 0; i < nd; i++ {
		src := temporalPreds[r.Intn(len(temporalPreds))]
		head := LitV{K: "atom", Pred: fmt.Sprintf("d%d", i), Args: []TermV{x}}
		c := ClauseV{Head: head, HeadTime: varIv("S", "E")}
		c.Body = []LitV{tlit(src, x, nil, varIv("S", "E"))}
		switch r.Intn(4) {
		case 0:
			c.Body = append(c.Body, LitV{K: "atom", Pred: "e", Args: []TermV{x}})
		case 1:
			// join of two temporal predicates on the same instant variables is rarely satisfiable; use the first one's interval
			src2 := temporalPreds[r.Intn(len(temporalPreds))]
			c.Body = append(c.Body, tlit(src2, x, nil, varIv("S2", "E2")))
		case 2:
			c.HeadTime = &IvV{S: BoundV{K: "var", V: "S"}, E: BoundV{K: "now"}}
			c.Body = append(c.Body, LitV{K: "atom", Pred: ":time:le", Args: []TermV{VarT("S"), FnT("fn:time:parse_rfc3339", ConstT(Str("2024-01-10T12:00:00Z")))}})
		}
		p.Rules = append(p.Rules, c)
		temporalPreds = append(temporalPreds, head.Pred)
	}
	nc := 1 + r.Intn(3)
	for i := 0; i < nc; i++ {
		src := temporalPreds[r.Intn(len(temporalPreds))]
		a := r.Intn(8)
		b := a + r.Intn(8)
		op := &OpV{Type: r.Intn(4), Iv: IvV{S: durH(a), E: durH(b)}}
		head := LitV{K: "atom", Pred: fmt.Sprintf("r%d", i), Args: []TermV{x}}
		c := ClauseV{Head: head, Body: []LitV{tlit(src, x, op, nil)}}
		if r.Intn(3) == 0 {
			c.Body = append(c.Body, LitV{K: "atom", Pred: "e", Args: []TermV{x}})
		}
		if r.Intn(3) == 0 && i > 0 {
			c.Body = append(c.Body, LitV{K: "atom", Pred: fmt.Sprintf("r%d", i-1), Args: []TermV{x}})
		}
		p.Rules = append(p.Rules, c)
	}
	return p
}
