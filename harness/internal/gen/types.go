package gen

import (
	"math/rand"
)

// Type expressions as TermV trees over a small name trie.

var BaseTypes = []string{"/any", "/name", "/number", "/string", "/float64", "/bytes", "/time", "/duration"}

// name-prefix types (members are names strictly below the prefix)
var PrefixTypes = []string{"/foo", "/foobar", "/foo/a", "/foobar/x", "/str", "/bar"}

// names that populate the trie
var TrieNames = []string{"/foo/a", "/foo/b", "/foo/a/deep", "/foobar/x", "/foobar/y", "/foobar/x/z", "/str/s", "/string/q", "/bar/k", "/foo", "/foobar", "/other"}

var structLabels = []string{"/a", "/b", "/c"}

func baseT(r *rand.Rand) TermV {
	if r.Intn(3) == 0 {
		return ConstT(Name(PrefixTypes[r.Intn(len(PrefixTypes))]))
	}
	return ConstT(Name(BaseTypes[r.Intn(len(BaseTypes))]))
}

func singletonVal(r *rand.Rand) Val {
	// the library's well-formedness check admits only name constants in singleton types
	if r.Intn(4) > 0 {
		return Name(TrieNames[r.Intn(len(TrieNames))])
	}
	return Name("/true")
}

// RandTypeV generates a closed, well-formed type expression.
func RandTypeV(r *rand.Rand, depth int) TermV {
	if depth >= 3 || r.Intn(5) < 2 {
		return baseT(r)
	}
	switch r.Intn(9) {
	case 0:
		return FnT("fn:List", RandTypeV(r, depth+1))
	case 1:
		return FnT("fn:Pair", RandTypeV(r, depth+1), RandTypeV(r, depth+1))
	case 2:
		return FnT("fn:Map", RandTypeV(r, depth+2), RandTypeV(r, depth+1))
	case 3:
		n := r.Intn(4)
		var args []TermV
		perm := r.Perm(len(structLabels))
		for i := 0; i < n && i < len(structLabels); i++ {
			l := ConstT(Name(structLabels[perm[i]]))
			t := RandTypeV(r, depth+1)
			if r.Intn(3) == 0 {
				args = append(args, FnT("fn:opt", l, t))
			} else {
				args = append(args, l, t)
			}
		}
		return FnT("fn:Struct", args...)
	case 4:
		n := r.Intn(4)
		args := make([]TermV, n)
		for i := range args {
			args[i] = RandTypeV(r, depth+1)
		}
		return FnT("fn:Union", args...)
	case 5:
		return FnT("fn:Singleton", ConstT(singletonVal(r)))
	case 6:
		n := 3 + r.Intn(2)
		args := make([]TermV, n)
		for i := range args {
			args[i] = RandTypeV(r, depth+1)
		}
		return FnT("fn:Tuple", args...)
	case 7:
		return FnT("fn:Option", RandTypeV(r, depth+1))
	default:
		// tagged union: tag field, (tag, struct type)*
		n := 1 + r.Intn(2)
		args := []TermV{ConstT(Name("/kind"))}
		tags := []string{"/circle", "/square", "/tri"}
		for i := 0; i < n; i++ {
			st := FnT("fn:Struct", ConstT(Name(structLabels[r.Intn(2)])), RandTypeV(r, depth+2))
			args = append(args, ConstT(Name(tags[i])), st)
		}
		return FnT("fn:TaggedUnion", args...)
	}
}
