package gen

import (
	"fmt"
	"math/rand"

	"codeberg.org/TauCeti/mangle-go/ast"
)

// JSON-serialisable syntax trees for terms, literals and clauses; Build*()
// constructs the library AST through public struct literals/constructors.

type TermV struct {
	K    string  `json:"k"` // var const fn
	Name string  `json:"name,omitempty"`
	Val  *Val    `json:"val,omitempty"`
	Args []TermV `json:"args,omitempty"`
}

func VarT(n string) TermV              { return TermV{K: "var", Name: n} }
func ConstT(v Val) TermV               { return TermV{K: "const", Val: &v} }
func FnT(name string, a ...TermV) TermV { return TermV{K: "fn", Name: name, Args: a} }

func (t TermV) Build() ast.BaseTerm {
	switch t.K {
	case "var":
		return ast.Variable{Symbol: t.Name}
	case "const":
		return t.Val.Const()
	case "fn":
		args := make([]ast.BaseTerm, len(t.Args))
		for i, a := range t.Args {
			args[i] = a.Build()
		}
		return ast.ApplyFn{Function: ast.FunctionSym{Symbol: t.Name, Arity: len(args)}, Args: args}
	}
	panic("bad TermV " + t.K)
}

type BoundV struct {
	K string `json:"k"` // ts var ninf pinf now dur
	T int64  `json:"t,omitempty"`
	V string `json:"v,omitempty"`
}

func (b BoundV) Build() ast.TemporalBound {
	switch b.K {
	case "ts":
		return ast.TemporalBound{Type: ast.TimestampBound, Timestamp: b.T}
	case "var":
		return ast.NewVariableBound(ast.Variable{Symbol: b.V})
	case "ninf":
		return ast.NegativeInfinity()
	case "pinf":
		return ast.PositiveInfinity()
	case "now":
		return ast.Now()
	case "dur":
		return ast.TemporalBound{Type: ast.DurationTemporalBound, Timestamp: b.T}
	}
	panic("bad BoundV " + b.K)
}

type IvV struct {
	S BoundV `json:"s"`
	E BoundV `json:"e"`
}

func (i IvV) Build() ast.Interval { return ast.Interval{Start: i.S.Build(), End: i.E.Build()} }

type OpV struct {
	Type int `json:"type"` // ast.TemporalOperatorType
	Iv   IvV `json:"iv"`
}

type LitV struct {
	K    string  `json:"k"` // atom neg eq ineq temporal
	Pred string  `json:"pred,omitempty"`
	Args []TermV `json:"args,omitempty"`
	L    *TermV  `json:"l,omitempty"`
	R    *TermV  `json:"r,omitempty"`
	Op   *OpV    `json:"op,omitempty"`
	Iv   *IvV    `json:"iv,omitempty"`
}

func (l LitV) atom() ast.Atom {
	args := make([]ast.BaseTerm, len(l.Args))
	for i, a := range l.Args {
		args[i] = a.Build()
	}
	return ast.Atom{Predicate: ast.PredicateSym{Symbol: l.Pred, Arity: len(args)}, Args: args}
}

func (l LitV) Build() ast.Term {
	switch l.K {
	case "atom":
		return l.atom()
	case "neg":
		return ast.NegAtom{Atom: l.atom()}
	case "eq":
		return ast.Eq{Left: l.L.Build(), Right: l.R.Build()}
	case "ineq":
		return ast.Ineq{Left: l.L.Build(), Right: l.R.Build()}
	case "temporal":
		tl := ast.TemporalLiteral{Literal: l.atom()}
		if l.Op != nil {
			tl.Operator = &ast.TemporalOperator{Type: ast.TemporalOperatorType(l.Op.Type), Interval: l.Op.Iv.Build()}
		}
		if l.Iv != nil {
			iv := l.Iv.Build()
			tl.Interval = &iv
		}
		return tl
	}
	panic("bad LitV " + l.K)
}

type StmtV struct {
	Var string `json:"var,omitempty"` // "" = do
	Fn  TermV  `json:"fn"`
}

type ClauseV struct {
	Head       LitV      `json:"head"`
	HeadTime   *IvV      `json:"headTime,omitempty"`
	Body       []LitV    `json:"body,omitempty"`
	Transforms [][]StmtV `json:"transforms,omitempty"`
}

func (c ClauseV) Build() ast.Clause {
	cl := ast.Clause{Head: c.Head.atom()}
	if c.HeadTime != nil {
		iv := c.HeadTime.Build()
		cl.HeadTime = &iv
	}
	if c.Body != nil {
		cl.Premises = make([]ast.Term, len(c.Body))
		for i, l := range c.Body {
			cl.Premises[i] = l.Build()
		}
	}
	var last *ast.Transform
	for _, stmts := range c.Transforms {
		t := &ast.Transform{}
		for _, s := range stmts {
			fn := s.Fn.Build().(ast.ApplyFn)
			if s.Var == "" {
				t.Statements = append(t.Statements, ast.TransformStmt{Fn: fn})
			} else {
				v := ast.Variable{Symbol: s.Var}
				t.Statements = append(t.Statements, ast.TransformStmt{Var: &v, Fn: fn})
			}
		}
		if cl.Transform == nil {
			cl.Transform = t
		} else {
			last.Next = t
		}
		last = t
	}
	return cl
}

// ---------------------------------------------------------------------------
// random syntactic clauses (for round-trip testing; not necessarily safe)

var predNames = []string{"p", "q", "r", "foo", "bar_baz", "a.b", "pkg.pred", "x1", "is_ok"}
var varNames = []string{"X", "Y", "Z", "W", "Xs", "Acc1", "_"}
var fnNames = []string{"fn:plus", "fn:minus", "fn:mult", "fn:list", "fn:pair", "fn:cons", "fn:len", "fn:string:concat", "fn:list:get", "fn:map", "fn:struct", "fn:some_fn", "fn:tuple"}

func RandTermV(r *rand.Rand, o ConstOpts, depth int) TermV {
	switch x := r.Intn(10); {
	case x < 4:
		return VarT(varNames[r.Intn(len(varNames))])
	case x < 8 || depth >= 2:
		return ConstT(RandVal(r, o, 0))
	default:
		n := r.Intn(3)
		args := make([]TermV, n)
		for i := range args {
			args[i] = RandTermV(r, o, depth+1)
		}
		return FnT(fnNames[r.Intn(len(fnNames))], args...)
	}
}

func randAtomV(r *rand.Rand, o ConstOpts) LitV {
	n := r.Intn(4)
	args := make([]TermV, n)
	for i := range args {
		args[i] = RandTermV(r, o, 0)
	}
	return LitV{K: "atom", Pred: predNames[r.Intn(len(predNames))], Args: args}
}

// whole-second timestamps, sub-second timestamps, in the grammar's range
func randTS(r *rand.Rand) int64 {
	base := int64(1600000000+r.Intn(200000000)) * 1_000_000_000
	switch r.Intn(4) {
	case 0:
		return base + int64(r.Intn(1000))*1_000_000
	case 1:
		return base + int64(r.Intn(1_000_000_000))
	}
	return base
}

// durations that have a source form: whole multiples of 1ms, non-negative
func randDurMs(r *rand.Rand) int64 {
	units := []int64{1_000_000, 1_000_000_000, 60_000_000_000, 3600_000_000_000, 86400_000_000_000}
	switch r.Intn(6) {
	case 0:
		return 0
	case 1:
		return int64(1+r.Intn(999)) * 1_000_000
	case 2:
		return int64(1+r.Intn(100))*3600_000_000_000 + int64(r.Intn(60))*60_000_000_000
	}
	return int64(1+r.Intn(30)) * units[r.Intn(len(units))]
}

func randBound(r *rand.Rand, allowDur bool) BoundV {
	switch x := r.Intn(10); {
	case x < 4:
		return BoundV{K: "ts", T: randTS(r)}
	case x < 6:
		return BoundV{K: "var", V: []string{"S", "E", "T", "T1"}[r.Intn(4)]}
	case x < 7:
		return BoundV{K: "now"}
	case x < 8 && allowDur:
		return BoundV{K: "dur", T: randDurMs(r)}
	default:
		return BoundV{K: "ts", T: randTS(r)}
	}
}

func randIv(r *rand.Rand) *IvV {
	switch r.Intn(6) {
	case 0:
		b := randBound(r, false)
		return &IvV{S: b, E: b} // point
	case 1:
		return &IvV{S: BoundV{K: "ninf"}, E: randBound(r, false)}
	case 2:
		return &IvV{S: randBound(r, false), E: BoundV{K: "pinf"}}
	}
	s, e := randBound(r, false), randBound(r, false)
	if s.K == "ts" && e.K == "ts" && s.T > e.T {
		s, e = e, s
	}
	return &IvV{S: s, E: e}
}

func RandClauseV(r *rand.Rand, o ConstOpts) ClauseV {
	c := ClauseV{Head: randAtomV(r, o)}
	if r.Intn(4) == 0 {
		c.HeadTime = randIv(r)
	}
	if r.Intn(5) == 0 {
		return c // fact
	}
	n := 1 + r.Intn(4)
	for i := 0; i < n; i++ {
		var l LitV
		switch x := r.Intn(20); {
		case x < 8:
			l = randAtomV(r, o)
		case x < 10:
			l = randAtomV(r, o)
			l.K = "neg"
		case x < 12:
			a, b := RandTermV(r, o, 0), RandTermV(r, o, 0)
			l = LitV{K: "eq", L: &a, R: &b}
		case x < 14:
			a, b := RandTermV(r, o, 0), RandTermV(r, o, 0)
			l = LitV{K: "ineq", L: &a, R: &b}
		case x < 16:
			a, b := RandTermV(r, o, 0), RandTermV(r, o, 0)
			l = LitV{K: "atom", Pred: []string{":lt", ":le", ":gt", ":ge"}[r.Intn(4)], Args: []TermV{a, b}}
		case x < 17:
			l = randAtomV(r, o)
			l.Pred = []string{":match_cons", ":match_pair", ":list:member", ":string:starts_with", ":match_prefix"}[r.Intn(5)]
		default:
			l = randAtomV(r, o)
			l.K = "temporal"
			if r.Intn(2) == 0 {
				d1, d2 := randDurMs(r), randDurMs(r)
				if d1 > d2 {
					d1, d2 = d2, d1
				}
				s, e := BoundV{K: "dur", T: d1}, BoundV{K: "dur", T: d2}
				if r.Intn(6) == 0 {
					s = BoundV{K: "now"}
				}
				if r.Intn(6) == 0 {
					// both bounds the same: now, one variable, one timestamp, one duration
					b := []BoundV{{K: "now"}, {K: "var", V: "T"}, {K: "ts", T: randTS(r)}, {K: "dur", T: randDurMs(r)}}[r.Intn(4)]
					s, e = b, b
				}
				l.Op = &OpV{Type: r.Intn(4), Iv: IvV{S: s, E: e}}
			}
			if l.Op == nil || r.Intn(3) == 0 {
				l.Iv = randIv(r)
			}
		}
		c.Body = append(c.Body, l)
	}
	if r.Intn(3) == 0 {
		nt := 1
		if r.Intn(4) == 0 {
			nt = 2 + r.Intn(4) // chains of up to five transforms
		}
		for t := 0; t < nt; t++ {
			var stmts []StmtV
			if r.Intn(2) == 0 {
				nk := r.Intn(3)
				keys := make([]TermV, nk)
				for i := range keys {
					keys[i] = VarT(varNames[r.Intn(4)])
				}
				stmts = append(stmts, StmtV{Fn: FnT("fn:group_by", keys...)})
				red := []string{"fn:count", "fn:sum", "fn:max", "fn:min", "fn:collect", "fn:collect_distinct", "fn:avg"}[r.Intn(7)]
				var args []TermV
				if red != "fn:count" {
					args = []TermV{VarT(varNames[r.Intn(4)])}
				}
				stmts = append(stmts, StmtV{Var: fmt.Sprintf("R%d", t), Fn: FnT(red, args...)})
			} else {
				ns := 1 + r.Intn(2)
				for i := 0; i < ns; i++ {
					fn := RandTermV(r, o, 2)
					f := FnT(fnNames[r.Intn(len(fnNames))], fn, RandTermV(r, o, 1))
					stmts = append(stmts, StmtV{Var: fmt.Sprintf("L%d%d", t, i), Fn: f})
				}
			}
			c.Transforms = append(c.Transforms, stmts)
		}
	}
	return c
}
