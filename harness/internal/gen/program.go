package gen

import (
	"fmt"
	"math/rand"
	"strings"
)

// Typed random Datalog programs (JSON-serialisable).

type PredSig struct {
	Name  string   `json:"name"`
	Sorts []string `json:"sorts"` // num name str list
	Level int      `json:"level"` // 0 for EDB; IDB 1..3
	IDB   bool     `json:"idb"`
}

type ProgramV struct {
	Preds []PredSig `json:"preds"`
	Rules []ClauseV `json:"rules"`
	Facts []AtomV   `json:"facts"`
}

type ProgOpts struct {
	Negation  bool
	Compare   bool
	Functions bool // fn:plus / list construction under guards
	Lists     bool
	Let       bool
	Do        bool // aggregating rules
	DoPercent int  // percent of eligible predicates that aggregate
	Unguarded bool // drop termination guards (C17)
	Wildcards bool
	Shuffle   int // percent of rules whose premises are fully shuffled
	MaxIDB    int
	MaxRules  int // per predicate
	// Reducers allowed in do-rules
	Reducers []string
	// FnInAtoms allows function expressions as arguments of body atoms / heads
	FnInAtoms            bool
	NoRecursionThroughFn bool
	// DoWildcards lets aggregating rules with multiplicity-insensitive reducers use wildcards for unused columns
	DoWildcards bool
	// Mix adds columns of sort "mix", whose domain holds hash-equal constants of different kinds
	Mix bool
	// DoFilters: a third of the aggregating rules get 1-2 negated atoms / inequalities (and nothing else) behind
	// their positive atoms
	DoFilters bool
	// MoreNegation: 2-4 extra literals per rule, most of them negated atoms (several negated atoms per body)
	MoreNegation bool
}

var sortDomain = map[string][]Val{
	"num":  {Num(0), Num(1), Num(2), Num(3), Num(4), Num(5)},
	"name": {Name("/a"), Name("/b"), Name("/c"), Name("/d")},
	"str":  {Str("x"), Str("y"), Str("z")},
	"list": {ListV(), ListV(Num(1)), ListV(Num(1), Num(2)), ListV(Num(2))},
	// distinct constants of different kinds with equal Hash(): 0 ~ 0.0, /a ~ "/a", 1.0 ~ its bit pattern as a number
	"mix": {Num(0), Float(0), Num(1), Name("/a"), Str("/a"), Float(1.0), Num(4607182418800017408)},
}

func SortDomain(s string) []Val { return sortDomain[s] }

type ruleCtx struct {
	r     *rand.Rand
	o     ProgOpts
	vars  map[string][]string // sort -> bound variable names
	nvar  int
	sorts map[string]string // var -> sort
}

func (c *ruleCtx) fresh(sort string) string {
	c.nvar++
	n := fmt.Sprintf("%s%d", map[string]string{"num": "N", "name": "A", "str": "S", "list": "L", "mix": "M"}[sort], c.nvar)
	c.sorts[n] = sort
	return n
}

func (c *ruleCtx) bind(sort, v string) {
	for _, x := range c.vars[sort] {
		if x == v {
			return
		}
	}
	c.vars[sort] = append(c.vars[sort], v)
}

func (c *ruleCtx) constOf(sort string) TermV {
	d := sortDomain[sort]
	return ConstT(d[c.r.Intn(len(d))])
}

// boundOrConst returns a bound variable of the sort, or a constant.
func (c *ruleCtx) boundOrConst(sort string, pConst int) TermV {
	if vs := c.vars[sort]; len(vs) > 0 && c.r.Intn(100) >= pConst {
		return VarT(vs[c.r.Intn(len(vs))])
	}
	return c.constOf(sort)
}

// posAtom builds a positive atom over pred, binding its variables.
func (c *ruleCtx) posAtom(p PredSig) LitV {
	l := LitV{K: "atom", Pred: p.Name}
	for _, s := range p.Sorts {
		x := c.r.Intn(100)
		switch {
		case x < 12:
			l.Args = append(l.Args, c.constOf(s))
		case x < 16 && c.o.Wildcards:
			l.Args = append(l.Args, VarT("_"))
		case x < 60 && len(c.vars[s]) > 0:
			l.Args = append(l.Args, VarT(c.vars[s][c.r.Intn(len(c.vars[s]))]))
		default:
			v := c.fresh(s)
			l.Args = append(l.Args, VarT(v))
			if c.r.Intn(4) == 0 {
				c.bind(s, v) // may repeat inside this atom: p(X,X)
			} else {
				defer c.bind(s, v)
			}
		}
	}
	return l
}

// RandProgram generates a typed program. Rules are safe by construction when
// premises are kept in generation order; Shuffle perturbs the order.
func RandProgram(r *rand.Rand, o ProgOpts) ProgramV {
	var p ProgramV
	sorts := []string{"num", "num", "name", "str"}
	if o.Lists {
		sorts = append(sorts, "list")
	}
	if o.Mix {
		sorts = append(sorts, "mix", "mix")
	}
	nEDB := 2 + r.Intn(3)
	for i := 0; i < nEDB; i++ {
		ar := r.Intn(4)
		if i == 0 {
			ar = 2
		}
		ps := PredSig{Name: fmt.Sprintf("e%d", i)}
		for k := 0; k < ar; k++ {
			if i == 0 {
				ps.Sorts = append(ps.Sorts, "num")
			} else {
				ps.Sorts = append(ps.Sorts, sorts[r.Intn(len(sorts))])
			}
		}
		p.Preds = append(p.Preds, ps)
	}
	maxIDB := o.MaxIDB
	if maxIDB == 0 {
		maxIDB = 5
	}
	nIDB := 2 + r.Intn(maxIDB-1)
	for i := 0; i < nIDB; i++ {
		ar := 1 + r.Intn(2)
		if r.Intn(8) == 0 {
			ar = r.Intn(4)
		}
		ps := PredSig{Name: fmt.Sprintf("p%d", i), IDB: true, Level: 1 + (i*3)/nIDB}
		for k := 0; k < ar; k++ {
			if r.Intn(2) == 0 {
				ps.Sorts = append(ps.Sorts, "num")
			} else {
				ps.Sorts = append(ps.Sorts, sorts[r.Intn(len(sorts))])
			}
		}
		p.Preds = append(p.Preds, ps)
	}
	// base facts
	for _, ps := range p.Preds {
		if ps.IDB {
			continue
		}
		n := r.Intn(9)
		if len(ps.Sorts) == 0 {
			n = r.Intn(2)
		}
		for k := 0; k < n; k++ {
			a := AtomV{P: ps.Name}
			for _, s := range ps.Sorts {
				d := sortDomain[s]
				a.Args = append(a.Args, d[r.Intn(len(d))])
			}
			p.Facts = append(p.Facts, a)
		}
	}
	maxRules := o.MaxRules
	if maxRules == 0 {
		maxRules = 3
	}
	aggPreds := map[string]bool{}
	for _, ps := range p.Preds {
		if !ps.IDB {
			continue
		}
		if o.Do && ps.Level >= 2 && len(ps.Sorts) >= 1 && len(ps.Sorts) <= 3 && r.Intn(100) < o.DoPercent {
			aggPreds[ps.Name] = true
		}
	}
	for _, ps := range p.Preds {
		if !ps.IDB {
			continue
		}
		nr := 1 + r.Intn(maxRules)
		for k := 0; k < nr; k++ {
			if aggPreds[ps.Name] {
				if k > 0 && r.Intn(4) == 0 {
					// a plain, non-recursive rule for the same head
					p.Rules = append(p.Rules, randRule(r, o, p, ps, aggPreds, true))
					continue
				}
				if c, ok := randDoRule(r, o, p, ps, aggPreds); ok {
					p.Rules = append(p.Rules, c)
				}
				continue
			}
			p.Rules = append(p.Rules, randRule(r, o, p, ps, aggPreds, false))
		}
	}
	return p
}

func randRule(r *rand.Rand, o ProgOpts, p ProgramV, head PredSig, aggPreds map[string]bool, lowerOnly bool) ClauseV {
	c := &ruleCtx{r: r, o: o, vars: map[string][]string{}, sorts: map[string]string{}}
	var cands []PredSig
	for _, q := range p.Preds {
		if !q.IDB || q.Level < head.Level || (q.Level == head.Level && !aggPreds[q.Name] && !lowerOnly) {
			cands = append(cands, q)
		}
	}
	var lower []PredSig
	for _, q := range p.Preds {
		if !q.IDB || q.Level < head.Level {
			lower = append(lower, q)
		}
	}
	var body []LitV
	npos := 1 + r.Intn(3)
	for i := 0; i < npos; i++ {
		q := cands[r.Intn(len(cands))]
		if i == 0 && r.Intn(2) == 0 {
			// bias: something with columns so that variables get bound
			for tries := 0; tries < 4 && len(q.Sorts) == 0; tries++ {
				q = cands[r.Intn(len(cands))]
			}
		}
		body = append(body, c.posAtom(q))
	}
	var extras []LitV
	var post []LitV // literals that must come after a binding equality
	nextra := r.Intn(3)
	negWeight := 3
	if o.MoreNegation {
		nextra = 2 + r.Intn(3)
		negWeight = 7
	}
	for i := 0; i < nextra; i++ {
		switch x := r.Intn(10); {
		case x < negWeight && o.Negation && len(lower) > 0:
			q := lower[r.Intn(len(lower))]
			l := LitV{K: "neg", Pred: q.Name}
			for _, s := range q.Sorts {
				if o.Wildcards && r.Intn(6) == 0 {
					l.Args = append(l.Args, VarT("_"))
				} else {
					l.Args = append(l.Args, c.boundOrConst(s, 25))
				}
			}
			extras = append(extras, l)
		case x < 5 && o.Compare && len(c.vars["num"]) > 0:
			a := VarT(c.vars["num"][r.Intn(len(c.vars["num"]))])
			b := c.boundOrConst("num", 50)
			extras = append(extras, LitV{K: "atom", Pred: []string{":lt", ":le", ":gt", ":ge"}[r.Intn(4)], Args: []TermV{a, b}})
		case x < 7:
			s := []string{"num", "name", "str", "mix", "list"}[r.Intn(5)]
			if len(c.vars["list"]) > 0 && r.Intn(2) == 0 {
				s = "list" // structured values compared for (in)equality: equal values from different facts are different objects
			}
			if len(c.vars[s]) == 0 {
				continue
			}
			a := VarT(c.vars[s][r.Intn(len(c.vars[s]))])
			b := c.boundOrConst(s, 50)
			k := "ineq"
			if r.Intn(3) == 0 {
				k = "eq"
			}
			extras = append(extras, LitV{K: k, L: &a, R: &b})
		case x == 8 && r.Intn(2) == 0:
			// an alias: a fresh variable that only a variable = variable equality (either orientation) defines
			ss := []string{"num", "name", "str", "list"}
			sort := ss[r.Intn(len(ss))]
			if len(c.vars[sort]) == 0 {
				continue
			}
			v := VarT(c.vars[sort][r.Intn(len(c.vars[sort]))])
			z := VarT(c.fresh(sort))
			if r.Intn(2) == 0 {
				post = append(post, LitV{K: "eq", L: &z, R: &v})
			} else {
				post = append(post, LitV{K: "eq", L: &v, R: &z})
			}
			c.bind(sort, z.Name)
		case x < 9 && o.Functions && len(c.vars["num"]) > 0:
			x1 := c.vars["num"][r.Intn(len(c.vars["num"]))]
			z := c.fresh("num")
			zt := VarT(z)
			var fn TermV
			switch r.Intn(3) {
			case 0:
				fn = FnT("fn:plus", VarT(x1), ConstT(Num(1)))
			case 1:
				fn = FnT("fn:plus", VarT(x1), c.boundOrConst("num", 30))
			default:
				fn = FnT("fn:mult", VarT(x1), ConstT(Num(2)))
			}
			if !o.Unguarded {
				extras = append(extras, LitV{K: "atom", Pred: ":lt", Args: []TermV{VarT(x1), ConstT(Num(int64(4 + r.Intn(3))))}})
				for _, a := range fn.Args {
					if a.K == "var" && a.Name != x1 {
						extras = append(extras, LitV{K: "atom", Pred: ":lt", Args: []TermV{a, ConstT(Num(6))}})
					}
				}
			}
			if r.Intn(2) == 0 {
				post = append(post, LitV{K: "eq", L: &zt, R: &fn})
			} else {
				post = append(post, LitV{K: "eq", L: &fn, R: &zt})
			}
			c.bind("num", z)
		default:
			if !o.Lists || len(c.vars["list"]) == 0 {
				continue
			}
			lv := c.vars["list"][r.Intn(len(c.vars["list"]))]
			switch r.Intn(3) {
			case 0:
				h, t := c.fresh("num"), c.fresh("list")
				post = append(post, LitV{K: "atom", Pred: ":match_cons", Args: []TermV{VarT(lv), VarT(h), VarT(t)}})
				c.bind("num", h)
				c.bind("list", t)
			case 1:
				e := c.fresh("num")
				post = append(post, LitV{K: "atom", Pred: ":list:member", Args: []TermV{VarT(e), VarT(lv)}})
				c.bind("num", e)
			default:
				if !o.Functions {
					continue
				}
				z := c.fresh("list")
				zt := VarT(z)
				fn := FnT("fn:list:cons", c.boundOrConst("num", 40), VarT(lv))
				if !o.Unguarded {
					extras = append(extras, LitV{K: "atom", Pred: ":lt", Args: []TermV{FnT("fn:list:len", VarT(lv)), ConstT(Num(int64(2 + r.Intn(2))))}})
				}
				post = append(post, LitV{K: "eq", L: &zt, R: &fn})
				c.bind("list", z)
			}
		}
	}
	if o.FnInAtoms && r.Intn(5) == 0 {
		// a positive atom one of whose columns is given by a function expression over variables that
		// already have a value (an input column); it goes behind the atoms that bind them
		var withCol []PredSig
		for _, q := range cands {
			for _, s := range q.Sorts {
				if (s == "num" && len(c.vars["num"]) > 0) || (s == "list" && len(c.vars["num"]) > 0) {
					withCol = append(withCol, q)
					break
				}
			}
		}
		if len(withCol) > 0 {
			q := withCol[r.Intn(len(withCol))]
			l := LitV{K: "atom", Pred: q.Name}
			done := false
			var late []func()
			for _, s := range q.Sorts {
				x1 := ""
				if len(c.vars["num"]) > 0 {
					x1 = c.vars["num"][r.Intn(len(c.vars["num"]))]
				}
				switch {
				case !done && s == "num" && x1 != "":
					done = true
					switch r.Intn(3) {
					case 0:
						l.Args = append(l.Args, FnT("fn:plus", VarT(x1), ConstT(Num(1))))
					case 1:
						l.Args = append(l.Args, FnT("fn:minus", VarT(x1), c.boundOrConst("num", 50)))
					default:
						l.Args = append(l.Args, FnT("fn:mult", VarT(x1), ConstT(Num(2))))
					}
				case !done && s == "list" && x1 != "":
					done = true
					switch r.Intn(3) {
					case 0:
						l.Args = append(l.Args, FnT("fn:list", VarT(x1)))
					case 1:
						l.Args = append(l.Args, FnT("fn:list", VarT(x1), c.boundOrConst("num", 50)))
					default:
						l.Args = append(l.Args, FnT("fn:list:cons", VarT(x1), ConstT(ListV())))
					}
				case r.Intn(3) == 0:
					v := c.fresh(s)
					l.Args = append(l.Args, VarT(v))
					s := s
					late = append(late, func() { c.bind(s, v) })
				default:
					l.Args = append(l.Args, c.boundOrConst(s, 30))
				}
			}
			for _, f := range late {
				f()
			}
			post = append(post, l)
		}
	}
	// head
	headL := LitV{K: "atom", Pred: head.Name}
	for _, s := range head.Sorts {
		if o.FnInAtoms && s == "num" && len(c.vars["num"]) > 0 && r.Intn(8) == 0 {
			x1 := c.vars["num"][r.Intn(len(c.vars["num"]))]
			headL.Args = append(headL.Args, FnT("fn:plus", VarT(x1), ConstT(Num(1))))
			if !o.Unguarded {
				extras = append(extras, LitV{K: "atom", Pred: ":lt", Args: []TermV{VarT(x1), ConstT(Num(5))}})
			}
			continue
		}
		headL.Args = append(headL.Args, c.boundOrConst(s, 8))
	}
	cl := ClauseV{Head: headL}
	// let transform
	if o.Let && len(c.vars["num"]) > 0 && r.Intn(6) == 0 {
		for i, s := range head.Sorts {
			if s == "num" {
				x1 := c.vars["num"][r.Intn(len(c.vars["num"]))]
				x2 := c.boundOrConst("num", 50)
				cl.Transforms = [][]StmtV{{{Var: "Z", Fn: FnT("fn:plus", VarT(x1), x2)}}}
				if r.Intn(3) == 0 {
					// a chain: the second statement uses what the first defines
					x3 := c.boundOrConst("num", 50)
					if !o.Unguarded && x3.K == "var" {
						extras = append(extras, LitV{K: "atom", Pred: ":lt", Args: []TermV{x3, ConstT(Num(4))}})
					}
					cl.Transforms[0] = append(cl.Transforms[0], StmtV{Var: "Z2", Fn: FnT("fn:plus", VarT("Z"), x3)})
					for j := i + 1; j < len(head.Sorts); j++ {
						if head.Sorts[j] == "num" && r.Intn(2) == 0 {
							cl.Head.Args[j] = VarT("Z2")
							break
						}
					}
				}
				if !o.Unguarded {
					extras = append(extras, LitV{K: "atom", Pred: ":lt", Args: []TermV{VarT(x1), ConstT(Num(4))}})
					if x2.K == "var" {
						extras = append(extras, LitV{K: "atom", Pred: ":lt", Args: []TermV{x2, ConstT(Num(4))}})
					}
				}
				cl.Head.Args[i] = VarT("Z")
				break
			}
		}
	}
	// order: positives, then extras shuffled, then post (binding) literals; guards on post-bound vars are rare
	r.Shuffle(len(extras), func(i, j int) { extras[i], extras[j] = extras[j], extras[i] })
	all := append(append(append([]LitV{}, body...), post...), extras...)
	// extras may mention variables bound only by post literals: they are after them now
	if r.Intn(100) < o.Shuffle {
		sh := append([]LitV{}, all...)
		r.Shuffle(len(sh), func(i, j int) { sh[i], sh[j] = sh[j], sh[i] })
		// a function expression in a positive atom is an input: it stays behind what gives its variables a value
		// (analysis accepts the other orders too and evaluation then fails: finding F37, the subject of C04)
		if len(FnAtomsWithoutValue(sh)) == 0 {
			all = sh
		}
	}
	if o.MoreNegation && r.Intn(2) == 0 {
		// negated atoms written first, in any order: the library moves each behind the premises that bind its variables
		var negs, rest []LitV
		for _, l := range all {
			if l.K == "neg" {
				negs = append(negs, l)
			} else {
				rest = append(rest, l)
			}
		}
		r.Shuffle(len(negs), func(i, j int) { negs[i], negs[j] = negs[j], negs[i] })
		all = append(negs, rest...)
	}
	cl.Body = all
	return cl
}

func randDoRule(r *rand.Rand, o ProgOpts, p ProgramV, head PredSig, aggPreds map[string]bool) (ClauseV, bool) {
	c := &ruleCtx{r: r, o: o, vars: map[string][]string{}, sorts: map[string]string{}}
	c.o.Wildcards = false // wildcards inside aggregated bodies are excluded (ambiguous counting)
	var lower []PredSig
	for _, q := range p.Preds {
		if (!q.IDB || q.Level < head.Level) && len(q.Sorts) > 0 {
			lower = append(lower, q)
		}
	}
	if len(lower) == 0 {
		return ClauseV{}, false
	}
	var body []LitV
	npos := 1 + r.Intn(2)
	for i := 0; i < npos; i++ {
		body = append(body, c.posAtom(lower[r.Intn(len(lower))]))
	}
	if o.DoFilters && r.Intn(3) == 0 {
		// filters only: negated atoms over lower predicates and inequalities with a constant
		nf := 1 + r.Intn(2)
		for i := 0; i < nf; i++ {
			if r.Intn(3) > 0 {
				q := lower[r.Intn(len(lower))]
				l := LitV{K: "neg", Pred: q.Name}
				for _, s := range q.Sorts {
					l.Args = append(l.Args, c.boundOrConst(s, 25))
				}
				body = append(body, l)
			} else {
				ss := []string{"num", "name", "str"}
				s := ss[r.Intn(len(ss))]
				if len(c.vars[s]) == 0 {
					continue
				}
				a := VarT(c.vars[s][r.Intn(len(c.vars[s]))])
				b := c.constOf(s)
				body = append(body, LitV{K: "ineq", L: &a, R: &b})
			}
		}
		o.Compare = false
		c.vars["list"] = nil
		c.vars["numNoExtras"] = []string{"x"}
	}
	if o.Compare && len(c.vars["num"]) > 0 && r.Intn(3) == 0 {
		a := VarT(c.vars["num"][r.Intn(len(c.vars["num"]))])
		body = append(body, LitV{K: "atom", Pred: ":le", Args: []TermV{a, ConstT(Num(int64(r.Intn(6))))}})
	}
	if len(c.vars["list"]) > 0 && r.Intn(2) == 0 {
		// a variable that only a built-in predicate with an output position binds (one solution per list element, or
		// the head of the list); it can become a group key or a reducer argument
		lv := c.vars["list"][r.Intn(len(c.vars["list"]))]
		e := c.fresh("num")
		if r.Intn(3) > 0 {
			body = append(body, LitV{K: "atom", Pred: ":list:member", Args: []TermV{VarT(e), VarT(lv)}})
		} else {
			t := c.fresh("list")
			body = append(body, LitV{K: "atom", Pred: ":match_cons", Args: []TermV{VarT(lv), VarT(e), VarT(t)}})
		}
		c.vars["num"] = append([]string{e, e}, c.vars["num"]...)
	}
	if len(c.vars["num"]) > 0 && len(c.vars["numNoExtras"]) == 0 && r.Intn(3) == 0 {
		// a variable that only an equality defines, in either orientation; it can become a group key or a reducer argument
		x1 := c.vars["num"][r.Intn(len(c.vars["num"]))]
		z := c.fresh("num")
		zt := VarT(z)
		var fn TermV
		switch r.Intn(3) {
		case 0:
			fn = FnT("fn:plus", VarT(x1), ConstT(Num(int64(r.Intn(3)))))
		case 1:
			fn = FnT("fn:mult", VarT(x1), ConstT(Num(2)))
		default:
			fn = ConstT(Num(int64(r.Intn(4))))
		}
		if r.Intn(2) == 0 {
			body = append(body, LitV{K: "eq", L: &zt, R: &fn})
		} else {
			body = append(body, LitV{K: "eq", L: &fn, R: &zt})
		}
		// more likely than the others to be used below
		c.vars["num"] = append([]string{z, z}, c.vars["num"]...)
	}
	// head: last column is the aggregate, earlier columns are group keys
	nk := len(head.Sorts) - 1
	var keys []TermV
	headL := LitV{K: "atom", Pred: head.Name}
	for i := 0; i < nk; i++ {
		s := head.Sorts[i]
		if len(c.vars[s]) == 0 {
			return ClauseV{}, false
		}
		v := VarT(c.vars[s][r.Intn(len(c.vars[s]))])
		dup := false
		for _, k := range keys {
			if k.Name == v.Name {
				dup = true
			}
		}
		if !dup {
			keys = append(keys, v)
		}
		headL.Args = append(headL.Args, v)
	}
	reds := o.Reducers
	if len(reds) == 0 {
		reds = []string{"fn:count", "fn:sum", "fn:min", "fn:max"}
	}
	red := reds[r.Intn(len(reds))]
	last := head.Sorts[len(head.Sorts)-1]
	if (red == "fn:avg" || red == "fn:collect_distinct") && head.Level < 3 {
		// results whose type/order other rules could observe stay at the top level
		red = "fn:sum"
	}
	var stmt StmtV
	switch {
	case red == "fn:count" && last == "num":
		stmt = StmtV{Var: "R", Fn: FnT("fn:count")}
	case red == "fn:collect_distinct" && last == "list" && len(c.vars["mix"]) > 0 && r.Intn(2) == 0:
		// hash-equal constants of different kinds in one group: a set keeps them apart
		stmt = StmtV{Var: "R", Fn: FnT("fn:collect_distinct", VarT(c.vars["mix"][r.Intn(len(c.vars["mix"]))]))}
	case red == "fn:collect_distinct" && last == "list" && len(c.vars["num"]) > 0:
		stmt = StmtV{Var: "R", Fn: FnT("fn:collect_distinct", VarT(c.vars["num"][r.Intn(len(c.vars["num"]))]))}
	case last == "num" && len(c.vars["num"]) > 0 && red != "fn:collect_distinct" && red != "fn:count":
		stmt = StmtV{Var: "R", Fn: FnT(red, VarT(c.vars["num"][r.Intn(len(c.vars["num"]))]))}
	case last == "num":
		stmt = StmtV{Var: "R", Fn: FnT("fn:count")}
	default:
		return ClauseV{}, false
	}
	headL.Args = append(headL.Args, VarT("R"))
	stmts := []StmtV{{Fn: FnT("fn:group_by", keys...)}, stmt}
	// second reducer replacing the last key column
	if nk >= 1 && head.Sorts[nk-1] == "num" && len(c.vars["num"]) > 0 && r.Intn(4) == 0 {
		red2 := []string{"fn:count", "fn:sum", "fn:min", "fn:max"}[r.Intn(4)]
		var fn TermV
		if red2 == "fn:count" {
			fn = FnT(red2)
		} else {
			fn = FnT(red2, VarT(c.vars["num"][r.Intn(len(c.vars["num"]))]))
		}
		dropped := headL.Args[nk-1]
		headL.Args[nk-1] = VarT("R2")
		stmts = append(stmts, StmtV{Var: "R2", Fn: fn})
		// remove the dropped key from group_by if no other head column uses it
		still := false
		for i := 0; i < nk-1; i++ {
			if headL.Args[i].Name == dropped.Name {
				still = true
			}
		}
		if !still {
			var nkeys []TermV
			for _, k := range keys {
				if k.Name != dropped.Name {
					nkeys = append(nkeys, k)
				}
			}
			stmts[0] = StmtV{Fn: FnT("fn:group_by", nkeys...)}
		}
	}
	cl := ClauseV{Head: headL, Body: body, Transforms: [][]StmtV{stmts}}
	if o.DoWildcards && r.Intn(2) == 0 {
		wildcardUnused(&cl)
	}
	return cl, true
}

// wildcardUnused replaces every variable that occurs exactly once in an aggregating rule (in a body
// atom, nowhere else) by the wildcard, provided every reducer of the rule is insensitive to the
// multiplicity of rows (min, max, collect_distinct): whether p(X,_) contributes one row per fact or
// one row per distinct X is then immaterial.
func wildcardUnused(cl *ClauseV) {
	for _, st := range cl.Transforms {
		for _, s := range st {
			switch s.Fn.Name {
			case "fn:group_by", "fn:min", "fn:max", "fn:collect_distinct":
			default:
				return
			}
		}
	}
	count := map[string]int{}
	var walk func(t TermV)
	walk = func(t TermV) {
		if t.K == "var" {
			count[t.Name]++
		}
		for _, a := range t.Args {
			walk(a)
		}
	}
	for _, a := range cl.Head.Args {
		walk(a)
	}
	for _, l := range cl.Body {
		for _, a := range l.Args {
			walk(a)
		}
		if l.L != nil {
			walk(*l.L)
			walk(*l.R)
		}
	}
	for _, st := range cl.Transforms {
		for _, s := range st {
			walk(s.Fn)
		}
	}
	for bi, l := range cl.Body {
		if l.K != "atom" || len(l.Pred) > 0 && l.Pred[0] == ':' {
			continue
		}
		for ai, a := range l.Args {
			if a.K == "var" && count[a.Name] == 1 {
				cl.Body[bi].Args[ai] = VarT("_")
			}
		}
	}
}

// RandKnotProgram builds a densely mutually recursive, negation-free program over
// unary predicates on a tiny domain: k IDB predicates in (mostly) one strongly connected
// component, each with 1-3 rules whose bodies hold one or two IDB atoms on the head
// variable and sometimes the base predicate. Used to exercise cycle cuts and memo tables.
func RandKnotProgram(r *rand.Rand) ProgramV {
	var p ProgramV
	p.Preds = append(p.Preds, PredSig{Name: "e0", Sorts: []string{"num"}})
	for _, n := range []int64{1, 2}[:1+r.Intn(2)] {
		p.Facts = append(p.Facts, AtomV{P: "e0", Args: []Val{Num(n)}})
	}
	k := 3 + r.Intn(5)
	for i := 0; i < k; i++ {
		p.Preds = append(p.Preds, PredSig{Name: fmt.Sprintf("p%d", i), Sorts: []string{"num"}, IDB: true, Level: 1})
	}
	x := VarT("X")
	atom := func(name string) LitV { return LitV{K: "atom", Pred: name, Args: []TermV{x}} }
	grounded := r.Intn(k)
	for i := 0; i < k; i++ {
		nr := 1 + r.Intn(3)
		var rules []ClauseV
		for j := 0; j < nr; j++ {
			c := ClauseV{Head: atom(fmt.Sprintf("p%d", i))}
			for n := 1 + r.Intn(2); n > 0; n-- {
				c.Body = append(c.Body, atom(fmt.Sprintf("p%d", r.Intn(k))))
			}
			if r.Intn(4) == 0 {
				// the same predicate mentioned twice (one firing is then recorded twice), sometimes with a third atom
				c.Body = []LitV{c.Body[0], c.Body[0]}
				if r.Intn(3) == 0 {
					c.Body = append(c.Body, atom(fmt.Sprintf("p%d", r.Intn(k))))
				}
			}
			if r.Intn(4) == 0 {
				c.Body = append(c.Body, atom("e0"))
			}
			rules = append(rules, c)
		}
		if i == grounded || r.Intn(5) == 0 {
			rules = append(rules, ClauseV{Head: atom(fmt.Sprintf("p%d", i)), Body: []LitV{atom("e0")}})
			r.Shuffle(len(rules), func(a, b int) { rules[a], rules[b] = rules[b], rules[a] })
		}
		p.Rules = append(p.Rules, rules...)
	}
	return p
}

// RandClosureProgram builds a program over one or two binary predicates on a small graph whose rules are drawn from
// the closure family: copy of an edge relation, linear and non-linear transitivity in either atom order, symmetry,
// extension by a step relation, and a second predicate defined through the first. Facts needed by a later atom of a
// non-linear rule are typically derived rounds after those of its first atom.
func RandClosureProgram(r *rand.Rand) ProgramV {
	var p ProgramV
	p.Preds = append(p.Preds, PredSig{Name: "e0", Sorts: []string{"num", "num"}}, PredSig{Name: "e1", Sorts: []string{"num", "num"}})
	n := 3 + r.Intn(4)
	for _, e := range []string{"e0", "e1"} {
		for k := r.Intn(n + 2); k > 0; k-- {
			a, b := int64(r.Intn(n)), int64(r.Intn(n))
			if r.Intn(3) > 0 {
				b = (a + 1) % int64(n) // mostly a chain
			}
			p.Facts = append(p.Facts, AtomV{P: e, Args: []Val{Num(a), Num(b)}})
		}
	}
	np := 1 + r.Intn(2)
	for i := 0; i < np; i++ {
		p.Preds = append(p.Preds, PredSig{Name: fmt.Sprintf("p%d", i), Sorts: []string{"num", "num"}, IDB: true, Level: 1})
	}
	at := func(name, a, b string) LitV { return LitV{K: "atom", Pred: name, Args: []TermV{VarT(a), VarT(b)}} }
	for i := 0; i < np; i++ {
		me := fmt.Sprintf("p%d", i)
		other := fmt.Sprintf("p%d", r.Intn(np))
		edge := []string{"e0", "e1"}[r.Intn(2)]
		p.Rules = append(p.Rules, ClauseV{Head: at(me, "X", "Y"), Body: []LitV{at(edge, "X", "Y")}})
		for k := 1 + r.Intn(3); k > 0; k-- {
			var c ClauseV
			switch r.Intn(8) {
			case 0:
				c = ClauseV{Head: at(me, "X", "Z"), Body: []LitV{at(me, "X", "Y"), at(me, "Y", "Z")}}
			case 1:
				c = ClauseV{Head: at(me, "X", "Z"), Body: []LitV{at(me, "Y", "Z"), at(me, "X", "Y")}}
			case 2:
				c = ClauseV{Head: at(me, "X", "Z"), Body: []LitV{at(edge, "X", "Y"), at(me, "Y", "Z")}}
			case 3:
				c = ClauseV{Head: at(me, "Y", "Z"), Body: []LitV{at(me, "X", "Y"), at("e1", "Y", "Z")}}
			case 4:
				c = ClauseV{Head: at(me, "Y", "X"), Body: []LitV{at(me, "X", "Y")}}
			case 5:
				c = ClauseV{Head: at(me, "X", "Z"), Body: []LitV{at(other, "X", "Y"), at(me, "Y", "Z")}}
			case 6:
				// same generation: the recursive atom is looked up with both arguments bound
				c = ClauseV{Head: at(me, "X", "Y"), Body: []LitV{at(edge, "X", "V"), at(edge, "Y", "W"), at(me, "V", "W")}}
			default:
				c = ClauseV{Head: at(me, "X", "Z"), Body: []LitV{at(me, "X", "Y"), at(other, "Y", "Z"), at(me, "Z", "W")}}
			}
			p.Rules = append(p.Rules, c)
		}
	}
	return p
}

// RandNegKnotProgram builds a small program over unary predicates whose rules mention each other
// positively and through negation in any direction, so that about half of them are not stratifiable.
// Used to check that acceptance itself does not depend on the presentation of the program.
func RandNegKnotProgram(r *rand.Rand) ProgramV {
	var p ProgramV
	p.Preds = append(p.Preds, PredSig{Name: "e0", Sorts: []string{"num"}})
	for n := int64(0); n < int64(2+r.Intn(3)); n++ {
		p.Facts = append(p.Facts, AtomV{P: "e0", Args: []Val{Num(n)}})
	}
	k := 2 + r.Intn(3)
	for i := 0; i < k; i++ {
		p.Preds = append(p.Preds, PredSig{Name: fmt.Sprintf("p%d", i), Sorts: []string{"num"}, IDB: true, Level: 1})
	}
	x := VarT("X")
	lit := func(kind, name string) LitV { return LitV{K: kind, Pred: name, Args: []TermV{x}} }
	for i := 0; i < k; i++ {
		for j := 1 + r.Intn(2); j > 0; j-- {
			c := ClauseV{Head: lit("atom", fmt.Sprintf("p%d", i)), Body: []LitV{lit("atom", "e0")}}
			for n := r.Intn(3); n > 0; n-- {
				c.Body = append(c.Body, lit("atom", fmt.Sprintf("p%d", r.Intn(k))))
			}
			if r.Intn(2) == 0 {
				c.Body = append(c.Body, lit("neg", fmt.Sprintf("p%d", r.Intn(k))))
			}
			p.Rules = append(p.Rules, c)
		}
	}
	return p
}

// FnAtomsWithoutValue simulates left-to-right evaluation of a rule body and returns the positions of
// positive atoms one of whose arguments is a function expression over a variable that has no value at that
// point (positive atoms bind their variable arguments, equalities and the matching built-ins bind their outputs).
func FnAtomsWithoutValue(body []LitV) []int {
	bound := map[string]bool{}
	var vars func(t TermV, out map[string]bool)
	vars = func(t TermV, out map[string]bool) {
		if t.K == "var" && t.Name != "_" {
			out[t.Name] = true
		}
		for _, a := range t.Args {
			vars(a, out)
		}
	}
	var wild func(t TermV) bool
	wild = func(t TermV) bool {
		if t.K == "var" && t.Name == "_" {
			return true
		}
		for _, a := range t.Args {
			if wild(a) {
				return true
			}
		}
		return false
	}
	has := func(t TermV) bool {
		if wild(t) {
			return false // a wildcard is not a value
		}
		vs := map[string]bool{}
		vars(t, vs)
		for v := range vs {
			if !bound[v] {
				return false
			}
		}
		return true
	}
	bind := func(t TermV) {
		if t.K == "var" && t.Name != "_" {
			bound[t.Name] = true
		}
	}
	var bad []int
	for i, l := range body {
		switch l.K {
		case "atom":
			if strings.HasPrefix(l.Pred, ":") {
				switch l.Pred {
				case ":match_cons", ":match_pair":
					if len(l.Args) == 3 && has(l.Args[0]) {
						bind(l.Args[1])
						bind(l.Args[2])
					}
				case ":list:member":
					if len(l.Args) == 2 && has(l.Args[1]) {
						bind(l.Args[0])
					}
				}
				continue
			}
			for _, a := range l.Args {
				if a.K == "fn" && !has(a) {
					bad = append(bad, i)
					break
				}
			}
			for _, a := range l.Args {
				bind(a)
			}
		case "eq":
			if has(*l.L) {
				bind(*l.R)
			}
			if has(*l.R) {
				bind(*l.L)
			}
		}
	}
	return bad
}

// AddIDBFacts gives some rule-defined predicates unit clauses of their own (a predicate defined by facts and by rules
// at once), inserted at random places of the rule list, the very end included: the classification of such a
// predicate and of its clauses must not depend on where the unit clauses stand.
func AddIDBFacts(r *rand.Rand, p *ProgramV) {
	agg := map[string]bool{}
	for _, c := range p.Rules {
		for _, st := range c.Transforms {
			if len(st) > 0 && st[0].Var == "" {
				agg[c.Head.Pred] = true
			}
		}
	}
	for _, ps := range p.Preds {
		if !ps.IDB || agg[ps.Name] || r.Intn(2) == 0 {
			continue
		}
		n := 1 + r.Intn(2)
		for k := 0; k < n; k++ {
			h := LitV{K: "atom", Pred: ps.Name}
			for _, s := range ps.Sorts {
				d := sortDomain[s]
				h.Args = append(h.Args, ConstT(d[r.Intn(len(d))]))
			}
			at := r.Intn(len(p.Rules) + 1)
			if r.Intn(3) == 0 {
				at = len(p.Rules)
			}
			p.Rules = append(p.Rules[:at:at], append([]ClauseV{{Head: h}}, p.Rules[at:]...)...)
		}
	}
}
