// Package gen holds the workload generators: constants, atoms, programs.
package gen

import (
	"fmt"
	"math"
	"math/rand"
	"strings"

	"codeberg.org/TauCeti/mangle-go/ast"
)

// Val is a JSON-serialisable description of a constant. It is the harness's
// own tree; Const() builds the library value through the public constructors.
type Val struct {
	K    string `json:"k"`           // name str bytes num float time dur pair list map struct
	S    string `json:"s,omitempty"` // name / string (bytes: latin-1 string of the bytes)
	N    int64  `json:"n,omitempty"`
	Bits uint64 `json:"bits,omitempty"` // float bits
	Kids []Val  `json:"kids,omitempty"` // pair: 2; list: n; map/struct: k0 v0 k1 v1 ...
}

func Name(s string) Val      { return Val{K: "name", S: s} }
func Str(s string) Val       { return Val{K: "str", S: s} }
func Num(n int64) Val        { return Val{K: "num", N: n} }
func Float(f float64) Val    { return Val{K: "float", Bits: math.Float64bits(f)} }
func TimeV(n int64) Val      { return Val{K: "time", N: n} }
func Dur(n int64) Val        { return Val{K: "dur", N: n} }
func PairV(a, b Val) Val     { return Val{K: "pair", Kids: []Val{a, b}} }
func ListV(xs ...Val) Val    { return Val{K: "list", Kids: xs} }
func MapV(kvs ...Val) Val    { return Val{K: "map", Kids: kvs} }
func StructV(kvs ...Val) Val { return Val{K: "struct", Kids: kvs} }
func BytesV(b []byte) Val {
	// encode bytes as runes 0..255 so JSON stays valid
	var sb strings.Builder
	for _, x := range b {
		sb.WriteRune(rune(x))
	}
	return Val{K: "bytes", S: sb.String()}
}

func (v Val) RawBytes() []byte {
	var out []byte
	for _, r := range v.S {
		out = append(out, byte(r))
	}
	return out
}

// Const builds the library constant. Maps and structs are built by consing in
// the given order through MapCons/StructCons only when ordered==true; the
// default uses ast.Map / ast.Struct (which sort by hash).
func (v Val) Const() ast.Constant {
	switch v.K {
	case "name":
		c, err := ast.Name(v.S)
		if err != nil {
			panic(fmt.Sprintf("gen: invalid name %q: %v", v.S, err))
		}
		return c
	case "str":
		return ast.String(v.S)
	case "bytes":
		return ast.Bytes(v.RawBytes())
	case "num":
		return ast.Number(v.N)
	case "float":
		return ast.Float64(math.Float64frombits(v.Bits))
	case "time":
		return ast.Time(v.N)
	case "dur":
		return ast.Duration(v.N)
	case "pair":
		a, b := v.Kids[0].Const(), v.Kids[1].Const()
		return ast.Pair(&a, &b)
	case "list":
		if len(v.Kids) == 0 {
			return ast.ListNil
		}
		cs := make([]ast.Constant, len(v.Kids))
		for i, k := range v.Kids {
			cs[i] = k.Const()
		}
		return ast.List(cs)
	case "map":
		m := map[*ast.Constant]*ast.Constant{}
		for i := 0; i+1 < len(v.Kids); i += 2 {
			k, val := v.Kids[i].Const(), v.Kids[i+1].Const()
			m[&k] = &val
		}
		return *ast.Map(m)
	case "struct":
		m := map[*ast.Constant]*ast.Constant{}
		for i := 0; i+1 < len(v.Kids); i += 2 {
			k, val := v.Kids[i].Const(), v.Kids[i+1].Const()
			m[&k] = &val
		}
		return *ast.Struct(m)
	}
	panic("gen: bad Val kind " + v.K)
}

// Depth returns the nesting depth.
func (v Val) Depth() int {
	d := 0
	for _, k := range v.Kids {
		if kd := k.Depth(); kd > d {
			d = kd
		}
	}
	if len(v.Kids) > 0 || v.K == "pair" || v.K == "list" || v.K == "map" || v.K == "struct" {
		return d + 1
	}
	return 0
}

// Walk visits v and all descendants.
func (v Val) Walk(f func(Val)) {
	f(v)
	for _, k := range v.Kids {
		k.Walk(f)
	}
}

// ---------------------------------------------------------------------------
// pools

var BoundaryInts = []int64{0, 1, -1, 2, -2, 7, 10, 255, 256, 65792, math.MaxInt64, math.MinInt64, math.MaxInt64 - 1, math.MinInt64 + 1,
	1 << 53, 1<<53 + 1, 1<<53 - 1, -(1 << 53), -(1<<53 + 1), 1 << 31, 1<<31 - 1, -(1 << 31), 1 << 32, 1000000007, 42, -42, 3, 4, 5, 6, 100, -100}

var BoundaryFloats = []float64{0, math.Copysign(0, -1), 1, -1, 0.5, -0.25, 1.5, 3.14159, 1e300, -1e300, 1e-300, 5e-324, math.MaxFloat64, -math.MaxFloat64,
	2, 10, 100, 1e15, 1e16, 1e17, 9007199254740993, 1e21, 1e22, 123456789012345680000, 0.1, 0.2, 0.30000000000000004, 2.5e-7, 1 << 63, -(1 << 63), 65792}

// Name parts over the lexer's CONSTANT_CHAR set: letters digits . - _ ~ %
var nameParts = []string{"a", "b", "foo", "foobar", "bar", "x", "str", "string", "a.b", "a-b", "a_b", "a~b", "a%41b", "%", "~", "-", "_", ".", "0", "9z", "A", "Zz", "true", "false", "name", "number", "x1", "foo.bar-baz_q~", "%25", "a%", "%zz"}

// SafeNameParts excludes '%' (percent is special in simplecolumn files).
var safeNameParts = []string{"a", "b", "foo", "foobar", "bar", "x", "str", "a.b", "a-b", "a_b", "a~b", "~", "-", "_", ".", "0", "9z", "A", "Zz", "x1"}

var stringPool = []string{"", "a", "abc", "foo", "hello world", "\"", "\\", "\\\\", "a\"b", "'", "a'b", "\n", "\r", "\t", "a\rb", "\r\n", "\x00", "a\x00b", "\x01", "\x1f", "\x7f", "\u0080", "é", "é", "ß", "日本語", "😀", "a😀b", "\U0010ffff", " ", "\ufeff", "%", "%41", "a%b", "/", "/a", "`", "`a`", "\\n", "\\x41", "\\u{41}", "{", "}", "[", "]", "[-", "-1", " ", "  x ", "a\\", "\\\"", "$", "#", "# not comment", ".", ":-", "|>", "fn:x", "\x0b", "\x0c", "\x1b", "\u0085", " ",
	// boundaries of the UTF-8 encoding lengths and code points that decoders treat specially
	"\ufffd", "a\ufffdb", "\ufffc", "\ufffe", "\uffff", "\ud7ff", "\ue000", "\u07ff", "\u0800", "\U00010000", "\U0001ffff", "\U000e0001", "\u2028", "\u2029", "\u200b", "\u202e", "\u0300", "e\u0301", "\u007f\u0080", "\ufffd\ufffd"}

type ConstOpts struct {
	MaxDepth   int
	NoFloat    bool
	NoTime     bool
	NoBytes    bool
	SafeNames  bool // no '%' in names
	NoDupKeys  bool // map/struct keys distinct
	SmallInts  bool // small ints mostly
	NoNegFirst bool
}

// RandString returns a string from the pool or a random composition.
func RandString(r *rand.Rand) string {
	switch r.Intn(10) {
	case 0, 1, 2, 3, 4, 5:
		return stringPool[r.Intn(len(stringPool))]
	case 6, 7:
		return stringPool[r.Intn(len(stringPool))] + stringPool[r.Intn(len(stringPool))]
	case 8:
		// random bytes -> may be invalid UTF-8; restrict to valid runes
		n := r.Intn(6)
		var sb strings.Builder
		for i := 0; i < n; i++ {
			switch r.Intn(4) {
			case 0:
				sb.WriteRune(rune(r.Intn(0x80)))
			case 1:
				sb.WriteRune(rune(0x80 + r.Intn(0x700)))
			case 2:
				ru := rune(0x800 + r.Intn(0xF000))
				if ru >= 0xD800 && ru <= 0xDFFF {
					ru = 0x4e00
				}
				sb.WriteRune(ru)
			default:
				sb.WriteRune(rune(0x10000 + r.Intn(0x100000)))
			}
		}
		return sb.String()
	default:
		n := r.Intn(5)
		var sb strings.Builder
		for i := 0; i < n; i++ {
			sb.WriteByte(byte(r.Intn(128)))
		}
		return sb.String()
	}
}

func RandBytes(r *rand.Rand) []byte {
	switch r.Intn(4) {
	case 0:
		return []byte{}
	case 1:
		return []byte{byte(r.Intn(256))}
	case 2:
		return []byte(stringPool[r.Intn(len(stringPool))])
	default:
		n := r.Intn(6)
		b := make([]byte, n)
		for i := range b {
			b[i] = byte(r.Intn(256))
		}
		return b
	}
}

func RandName(r *rand.Rand, safe bool) string {
	parts := nameParts
	if safe {
		parts = safeNameParts
	}
	n := 1
	if r.Intn(3) == 0 {
		n = 2 + r.Intn(2)
	}
	var sb strings.Builder
	for i := 0; i < n; i++ {
		sb.WriteByte('/')
		sb.WriteString(parts[r.Intn(len(parts))])
	}
	return sb.String()
}

func RandInt(r *rand.Rand, small bool) int64 {
	if small || r.Intn(3) > 0 {
		if r.Intn(2) == 0 {
			return int64(r.Intn(7))
		}
		if !small && r.Intn(3) == 0 {
			return BoundaryInts[r.Intn(len(BoundaryInts))]
		}
		return int64(r.Intn(41) - 20)
	}
	switch r.Intn(3) {
	case 0:
		return BoundaryInts[r.Intn(len(BoundaryInts))]
	case 1:
		return r.Int63() - r.Int63()
	default:
		return int64(r.Intn(2000) - 1000)
	}
}

func RandFloat(r *rand.Rand) float64 {
	switch r.Intn(4) {
	case 0, 1:
		return BoundaryFloats[r.Intn(len(BoundaryFloats))]
	case 2:
		return float64(r.Intn(2000)-1000) / 8
	default:
		for {
			f := math.Float64frombits(r.Uint64())
			if !math.IsNaN(f) && !math.IsInf(f, 0) {
				return f
			}
		}
	}
}

// Times within the documented range (1678..2262): keep within ±2^62 ns.
var timePool = []int64{0, 1, -1, 1_000_000_000, 1700000000_000000000, 1700000000_123456789, 1700000000_500000000, -2208988800_000000000, 4102444800_000000000, 86400_000000000, 1, 999999999, 1 << 62, -(1 << 62)}

func RandTime(r *rand.Rand) int64 {
	if r.Intn(2) == 0 {
		return timePool[r.Intn(len(timePool))]
	}
	return r.Int63n(1<<62) - r.Int63n(1<<62)
}

var durPool = []int64{0, 1, -1, 1000, 1_000_000, 1_000_000_000, 60_000_000_000, 3600_000_000_000, 86400_000_000_000, 90_000_000_000, 1500, 1_500_000, math.MaxInt64, math.MinInt64, math.MinInt64 + 1, -3600_000_000_000, 123456789}

func RandDur(r *rand.Rand) int64 {
	if r.Intn(2) == 0 {
		return durPool[r.Intn(len(durPool))]
	}
	return r.Int63() - r.Int63()
}

// RandVal generates a random constant description.
func RandVal(r *rand.Rand, o ConstOpts, depth int) Val {
	leaf := func() Val {
		for {
			switch r.Intn(8) {
			case 0, 1:
				return Name(RandName(r, o.SafeNames))
			case 2:
				return Str(RandString(r))
			case 3, 4:
				return Num(RandInt(r, o.SmallInts))
			case 5:
				if o.NoFloat {
					continue
				}
				return Float(RandFloat(r))
			case 6:
				if o.NoBytes {
					continue
				}
				return BytesV(RandBytes(r))
			default:
				if o.NoTime {
					continue
				}
				if r.Intn(2) == 0 {
					return TimeV(RandTime(r))
				}
				return Dur(RandDur(r))
			}
		}
	}
	if depth >= o.MaxDepth || r.Intn(3) > 0 {
		return leaf()
	}
	switch r.Intn(4) {
	case 0:
		return PairV(RandVal(r, o, depth+1), RandVal(r, o, depth+1))
	case 1:
		n := r.Intn(4)
		xs := make([]Val, n)
		for i := range xs {
			xs[i] = RandVal(r, o, depth+1)
		}
		return Val{K: "list", Kids: xs}
	case 2:
		n := r.Intn(3)
		var kvs []Val
		seen := map[string]bool{}
		for i := 0; i < n; i++ {
			k := RandVal(r, o, o.MaxDepth) // leaf keys
			ks := fmt.Sprintf("%v", k)
			if seen[ks] {
				continue
			}
			seen[ks] = true
			kvs = append(kvs, k, RandVal(r, o, depth+1))
		}
		return Val{K: "map", Kids: kvs}
	default:
		n := r.Intn(3)
		var kvs []Val
		seen := map[string]bool{}
		for i := 0; i < n; i++ {
			k := Name("/" + safeNameParts[r.Intn(6)])
			if seen[k.S] {
				continue
			}
			seen[k.S] = true
			kvs = append(kvs, k, RandVal(r, o, depth+1))
		}
		return Val{K: "struct", Kids: kvs}
	}
}

// AtomV is a JSON-serialisable ground atom.
type AtomV struct {
	P    string `json:"p"`
	Args []Val  `json:"args"`
}

func (a AtomV) Atom() ast.Atom {
	args := make([]ast.BaseTerm, len(a.Args))
	for i, v := range a.Args {
		args[i] = v.Const()
	}
	return ast.Atom{Predicate: ast.PredicateSym{Symbol: a.P, Arity: len(a.Args)}, Args: args}
}
