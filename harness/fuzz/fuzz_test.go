// Coverage-guided fuzz targets for C10 (thorough tier). A crash of any target
// is a violation: no input text can crash the front end.
package fuzz

import (
	"bytes"
	"os"
	"path/filepath"
	"strings"
	"testing"
	"time"

	"codeberg.org/TauCeti/mangle-go/analysis"
	"codeberg.org/TauCeti/mangle-go/ast"
	"codeberg.org/TauCeti/mangle-go/engine"
	"codeberg.org/TauCeti/mangle-go/factstore"
	"codeberg.org/TauCeti/mangle-go/parse"
)

func seeds(f *testing.F, split bool) {
	files, _ := filepath.Glob("../internal/props/c10seeds/*.mg")
	for _, name := range files {
		b, err := os.ReadFile(name)
		if err != nil {
			continue
		}
		f.Add(b)
		if split {
			for _, l := range strings.Split(string(b), "\n") {
				if len(strings.TrimSpace(l)) > 3 {
					f.Add([]byte(l))
				}
			}
		}
	}
}

func FuzzUnit(f *testing.F) {
	seeds(f, false)
	f.Fuzz(func(t *testing.T, data []byte) {
		if len(data) > 4000 {
			return
		}
		unit, err := parse.Unit(bytes.NewReader(data))
		if err != nil {
			return
		}
		for _, c := range unit.Clauses {
			_ = c.String()
		}
		analysis.AnalyzeAndCheckBounds([]parse.SourceUnit{unit}, nil, analysis.ErrorForBoundsMismatch)
	})
}

func FuzzTerm(f *testing.F) {
	seeds(f, true)
	f.Fuzz(func(t *testing.T, data []byte) {
		if len(data) > 2000 {
			return
		}
		s := string(data)
		ast.Unescape(s, false)
		ast.Unescape(s, true)
		parse.PredicateName(s)
		parse.LiteralOrFormula(s)
		if term, err := parse.Term(s); err == nil {
			_ = term.String()
		}
		if c, err := parse.Clause(s); err == nil {
			_ = c.String()
		}
	})
}

func FuzzPipeline(f *testing.F) {
	seeds(f, false)
	evalTime := time.Unix(0, 1704888000_000000000).UTC()
	f.Fuzz(func(t *testing.T, data []byte) {
		if len(data) > 3000 {
			return
		}
		unit, err := parse.Unit(bytes.NewReader(data))
		if err != nil {
			return
		}
		pi, err := analysis.AnalyzeAndCheckBounds([]parse.SourceUnit{unit}, nil, analysis.ErrorForBoundsMismatch)
		if err != nil {
			return
		}
		store := factstore.NewMultiIndexedArrayInMemoryStore()
		engine.EvalProgram(pi, store, engine.WithCreatedFactLimit(30), engine.WithTemporalStore(factstore.NewTemporalStore()), engine.WithEvaluationTime(evalTime))
		for _, p := range store.ListPredicates() {
			store.GetFacts(ast.NewQuery(p), func(a ast.Atom) error { _ = a.String(); return nil })
		}
	})
}

func FuzzFactFile(f *testing.F) {
	f.Add([]byte("1\np 1 2\n1\n2\n"))
	f.Add([]byte("2\nq 2 1\nz 0 1\n/a\n\"x\"\n"))
	f.Add([]byte("1\np 1 1\n[1, 2]\n"))
	f.Add([]byte("0\n"))
	f.Fuzz(func(t *testing.T, data []byte) {
		if len(data) > 3000 {
			return
		}
		factstore.SimpleColumn{}.ReadInto(bytes.NewReader(data), factstore.NewMultiIndexedArrayInMemoryStore())
		if lazy, err := factstore.NewSimpleColumnStoreFromBytes(data); err == nil {
			for _, p := range lazy.ListPredicates() {
				n := 0
				lazy.GetFacts(ast.NewQuery(p), func(ast.Atom) error {
					n++
					if n > 10000 {
						return os.ErrClosed
					}
					return nil
				})
			}
		}
	})
}
