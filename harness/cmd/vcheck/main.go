// vcheck: one binary, one sub-check per property. See /verif/DESIGN.md.
package main

import (
	"encoding/json"
	"flag"
	"fmt"
	"os"
	"runtime"

	"verif/internal/core"
	_ "verif/internal/props"
)

func main() {
	prop := flag.String("prop", "", "property id (C01..C20)")
	tier := flag.String("tier", "quick", "quick|thorough")
	seed := flag.Int64("seed", 1, "VERIF_SEED")
	verifDir := flag.String("verif", "/verif", "verif directory")
	replay := flag.String("replay", "", "replay file")
	cases := flag.Int("cases", 0, "override number of cases")
	workers := flag.Int("workers", runtime.NumCPU(), "worker processes")
	wFrom := flag.Int("worker-from", -1, "(internal)")
	wStride := flag.Int("worker-stride", 1, "(internal)")
	wN := flag.Int("worker-n", 0, "(internal)")
	journal := flag.String("journal", "", "(internal)")
	list := flag.Bool("list", false, "list properties")
	dump := flag.Int("dump-case", -1, "print case <index> of -prop/-tier/-seed as a replay file (to investigate an inconclusive case)")
	flag.Parse()
	if *dump >= 0 {
		p := core.Lookup(*prop)
		if p == nil {
			fmt.Fprintln(os.Stderr, "unknown property")
			os.Exit(2)
		}
		c := p.Gen(core.CaseRNG(*seed, p.ID(), *dump), *tier, *dump)
		raw, _ := json.Marshal(c)
		out, _ := json.MarshalIndent(core.ReplayFile{Property: p.ID(), Tier: *tier, Seed: *seed, Index: *dump, Sig: "dump", Case: raw}, "", " ")
		fmt.Println(string(out))
		return
	}

	if *list {
		for _, id := range core.IDs() {
			fmt.Println(id)
		}
		return
	}
	if *replay != "" {
		os.Exit(core.Replay(*replay))
	}
	if *wFrom >= 0 {
		p := core.Lookup(*prop)
		if p == nil {
			fmt.Fprintln(os.Stderr, "unknown property")
			os.Exit(2)
		}
		if err := core.RunWorker(p, *tier, *seed, *wFrom, *wStride, *wN, *journal); err != nil {
			fmt.Fprintln(os.Stderr, err)
			os.Exit(2)
		}
		return
	}
	self, _ := os.Executable()
	os.Exit(core.Supervise(core.Options{Prop: *prop, Tier: *tier, Seed: *seed, VerifDir: *verifDir,
		Workers: *workers, Self: self, Cases: *cases}))
}
