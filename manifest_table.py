NOT_APPLICABLE = {}
chk("C06", "runtime monitoring: set-model oracle over random operation histories + index-agreement invariant hook",
    "Random add/remove/contains/query/list/count/merge histories on all 11 store kinds are compared step by step with a Go-map set model keyed by a canonical encoding; multi-indexed stores are additionally walked by a verif-tagged invariant hook. Held on the histories executed; says nothing about histories not generated.",
    "Trusts the harness's canonical encoding (independent of Hash/Equals/String) and the layered model of merged/teeing stores as documented in factstore.go.")
