NOT_APPLICABLE = {}
chk("C06", "runtime monitoring: set-model oracle over random operation histories + index-agreement invariant hook",
    "Random add/remove/contains/query/list/count/merge histories on all 11 store kinds are compared step by step with a Go-map set model keyed by a canonical encoding; multi-indexed stores are additionally walked by a verif-tagged invariant hook. Held on the histories executed; says nothing about histories not generated.",
    "Trusts the harness's canonical encoding (independent of Hash/Equals/String) and the layered model of merged/teeing stores as documented in factstore.go.")
chk("C13", "runtime monitoring: brute-force interval oracle over insertion histories + interval-tree invariant hook",
    "Insertion/coalesce histories on a dense discrete timeline; every point, range and full-scan answer, duplicates, limit errors and counts are compared with brute force over the list of inserted pairs; a verif-tagged walker checks search-tree order, maxEnd soundness and size of every tree at each quiescent point. Held on the histories executed.",
    "Atoms of the workload have distinct hashes (hash conflation is the C06 finding). Coalesce is judged by preserved instants and pairwise separation of finite intervals, not by a particular representation.")
chk("C09", "runtime monitoring: print/parse round-trip oracle with an independent structural comparison",
    "Generated constants, atoms, type expressions and clause syntax trees are printed with String(), parsed back by the real parser and compared by a structural walk that uses neither Equals, Hash nor String of the library (constants by canonical encoding after EvalExpr). Held on the terms executed.",
    "Trusts functional.EvalExpr for turning constructor expressions into constants (checked separately by C07) and the harness's comparison walk.")
chk("C08", "runtime monitoring: relational oracle (equivalence, hash and print agreement) over related term tuples",
    "Pairs/triples of related constants and atoms (rebuilt copies, one-leaf mutations, cross-kind twins, permuted map entries incl. hash-equal keys) are checked for reflexivity, symmetry, transitivity, Equals=>same Hash and String, same String=>Equals, and agreement of Equals with an independent canonical encoding. Held on the tuples executed.",
    "Domain restricted to finite floats and lexer-valid names as the property states; canonical encoding is the structural ground truth.")
chk("C19", "runtime monitoring: write/read round-trip oracle over fact sets, compressions and readers",
    "Generated fact sets are written in simple-column format (plain/gzip/zstd, deterministic or not), reloaded eagerly into each store kind and through the lazy file-backed view queried with patterns derived from every stored fact; results are compared as canonical sets, deterministic outputs from two differently ordered sources byte for byte. Held on the fact sets executed.",
    "Source stores are harness-owned slice stores (WriteTo only calls ListPredicates/GetFacts); hash-keyed ReadInto targets only see hash-distinct atoms.")
