#!/bin/bash
# sweep.sh <tier> [seed...] : runs every check of the manifest, prints one line per check
tier="${1:-quick}"; shift
seeds="${@:-1}"
cd "$(dirname "$0")"
for seed in $seeds; do
  for p in C01 C02 C03 C04 C05 C06 C07 C08 C09 C10 C11 C12 C13 C14 C15 C16 C17 C18 C19 C20; do
    start=$(date +%s)
    out=$(VERIF_SEED=$seed ./run.sh $p $tier 2>&1)
    rc=$?
    echo "== $p $tier seed=$seed exit=$rc $(( $(date +%s) - start ))s :: $(echo "$out" | grep -E "^$p " | tail -1)"
    if [ $rc -ne 0 ]; then echo "$out" | grep -E "VIOLATION|sig=|HARNESS|BUILD" | head -20; fi
  done
done
