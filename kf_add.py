#!/usr/bin/env python3
"""kf_add.py <property> <id> <known|fixed> <match> <what> [commit]  — maintenance helper (never used by checks)."""
import json,sys
prop,fid,status,match,what=sys.argv[1:6]
commit=sys.argv[6] if len(sys.argv)>6 else None
kf=json.load(open('/verif/KNOWN_FINDINGS.json'))
kf['findings']=[f for f in kf['findings'] if not (f['property']==prop and f['id']==fid)]
e=dict(property=prop,id=fid,status=status,what=what,match=match)
if commit: e['commit']=commit
kf['findings'].append(e)
kf['lines']=[("fixed: property=%s %s %s"%(f['property'],f.get('commit','?'),f['what'])) if f['status']=='fixed' else ("known: property=%s %s %s"%(f['property'],f['id'],f['what'])) for f in kf['findings']]
json.dump(kf,open('/verif/KNOWN_FINDINGS.json','w'),indent=1)
