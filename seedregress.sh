#!/bin/bash
# seedregress.sh [jobs] — maintenance helper for DESIGN.md section 12 (never used by a registered check).
# Regression over ALL stored seeded changes with the current harness: for each seed, the check of its own property
# (first entry of seeded/<id>/props, else the id's property) is run in the quick tier against /repo's HEAD plus
# the stored patch, in a scratch worktree under /tmp (removed afterwards; /repo's working tree is not touched, so
# several can run in parallel). One line per seed is written to seeded/REGRESSION.tsv (rewritten on every run).
set -u
VERIF="$(cd "$(dirname "$0")" && pwd)"
jobs="${1:-4}"
cd "$VERIF"
head=$(git -C /repo rev-parse --short HEAD)
one() {
  id="$1"
  base=${id%%-*}
  prop=$base
  [ -f "seeded/$id/props" ] && prop=$(awk '{print $1}' "seeded/$id/props")
  # C06-r3 needs two goroutines: C06's contended phase sees it as well as C18
  out=$(./seedcheck.sh "$id" "$prop" quick 2>&1)
  rc=$?
  line=$(echo "$out" | grep -aE "^$prop quick" | tail -1)
  sigs=$(echo "$out" | grep -aE "^ +[0-9]+  " | awk '{print $2"("$1")"}' | head -4 | tr '\n' ' ')
  printf "%s\t%s\t%s\texit=%s\t%s\t%s\n" "$id" "$prop" "$head" "$rc" "$line" "$sigs"
}
export -f one
ls seeded | grep -E '^C[0-9]+' | xargs -P "$jobs" -I{} bash -c 'one {}' | sort > seeded/REGRESSION.tsv.tmp
mv seeded/REGRESSION.tsv.tmp seeded/REGRESSION.tsv
echo "caught: $(grep -c 'exit=1' seeded/REGRESSION.tsv) of $(wc -l < seeded/REGRESSION.tsv)"
grep -v 'exit=1' seeded/REGRESSION.tsv | cut -c1-200
