#!/bin/bash
# seedverify.sh [SEED-ID ...] — maintenance helper for DESIGN.md section 12 (never used by a registered check).
# For every stored seeded change: apply it to /repo (git -C /repo apply), run the listed checks (quick tier,
# output to a scratch verif dir so that /verif/evidence and /verif/replays stay those of the unchanged tree),
# undo it straight afterwards (git -C /repo checkout -- .), and append one line per (seed, check) to seeded/RESULTS.tsv.
# Must not run while anything else builds from /repo.
set -u
VERIF="$(cd "$(dirname "$0")" && pwd)"
cd "$VERIF"
declare -A PROPS=(
 [C01]="C01 C20 C05" [C02]="C02 C01 C05" [C03]="C03" [C04]="C04 C10" [C05]="C05 C13 C14" [C06]="C06 C01 C05"
 [C07]="C07 C01" [C08]="C08 C09" [C09]="C09 C08 C19" [C10]="C10 C07" [C11]="C11 C12" [C12]="C12 C11"
 [C13]="C13 C14 C05" [C14]="C14 C13 C05" [C15]="C15" [C16]="C16" [C17]="C17" [C18]="C18" [C19]="C19 C09" [C20]="C20 C01"
)
ids="${@:-$(ls seeded | grep -E '^C[0-9]+' )}"
if [ -n "$(git -C /repo status --porcelain)" ]; then echo "/repo is not clean"; exit 2; fi
head=$(git -C /repo rev-parse --short HEAD)
for id in $ids; do
  base=${id%%-*}
  props="${PROPS[$base]:-$base}"
  [ -f "seeded/$id/props" ] && props="$(cat seeded/$id/props)"
  git -C /repo apply "$VERIF/seeded/$id/patch.diff" || { echo "$id: patch does not apply"; continue; }
  for p in $props; do
    out=/tmp/seedverif/verify.$id.$p.out
    mkdir -p /tmp/seedverif
    ./seedrun.sh /repo $p quick > $out 2>&1
    rc=$?
    line=$(grep -aE "^$p quick" $out | tail -1)
    sigs=$(grep -av "^KNOWN" $out | grep -aE "^ +[0-9]+  " | awk '{print $2"("$1")"}' | head -6 | tr '\n' ' ')
    printf "%s\t%s\t%s\texit=%s\t%s\t%s\n" "$id" "$p" "$head" "$rc" "$line" "$sigs" | tee -a seeded/RESULTS.tsv
  done
  git -C /repo checkout -- .
done
rm -rf /tmp/seedverif/_repo
