#!/usr/bin/env python3
"""Regenerates MANIFEST.json from the table below (kept in one place so the manifest is always valid)."""
import json, subprocess
checks = {}
def chk(pid, technique, text, note, cat="exploration", ref=None):
    checks[pid] = dict(property_id=pid,
        quick_cmd=f"./run.sh {pid} quick", thorough_cmd=f"./run.sh {pid} thorough",
        evidence_file=f"/verif/evidence/{pid}.json", replay_cmd_template="./run.sh replay {path}",
        engine="vcheck", level_claimed=dict(category=cat, text=text, design_ref=ref or f"DESIGN.md section 4 ({pid})"),
        level_note=note, technique=technique)

exec(open('/verif/manifest_table.py').read())

all_ids = [f"C{i:02d}" for i in range(1, 21)]
na = [dict(property_id=i, reason=NOT_APPLICABLE.get(i, "check not built yet in this round; see DESIGN.md section 9")) for i in all_ids if i not in checks]
hooks_commits = subprocess.run(["git","-C","/repo","log","--format=%h %s","--grep=^verif hooks"],capture_output=True,text=True).stdout.strip().splitlines()
m = dict(version=1,
  setup_cmd="./run.sh build",
  hooks=dict(guard="verif (Go build tag)", enable="go build -tags verif (run.sh builds the harness, whose go.mod replaces mangle-go with /repo, with -tags verif)",
             baseline_off_cmd="cd /repo && GOFLAGS=-mod=mod GOPROXY=off go test -vet=off -count=1 -timeout 25m ./...",
             source_commits=[l.split()[0] for l in hooks_commits], add_only=True),
  engines=[dict(name="vcheck", path="/verif/harness", serves_properties=sorted(checks), kind_free_text="Go harness: supervisor + child-process workers driving the real library with generated workloads; per-property oracles (set models, reference evaluator, round-trip, porcupine, race detector)")],
  checks=[checks[k] for k in sorted(checks)],
  not_applicable=na,
  notes="Runtime monitoring family. Verdicts are 'held on the executions observed'. Known findings: KNOWN_FINDINGS.json. VERIF_SEED selects the workload; case counts per tier are fixed (no wall-clock budgets).")
json.dump(m, open('/verif/MANIFEST.json','w'), indent=1)
print("manifest:", len(checks), "checks,", len(na), "not claimed")
