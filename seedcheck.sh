#!/bin/bash
# seedcheck.sh <SEED-ID> <PROP> [tier] [extra vcheck args]
# Maintenance helper for DESIGN.md section 12 (never used by a registered check).
# Runs the check for <PROP> against /repo's HEAD plus the stored seeded change /verif/seeded/<SEED-ID>/patch.diff,
# in a scratch worktree under /tmp that is removed afterwards; /repo's working tree is not touched.
set -u
VERIF="$(cd "$(dirname "$0")" && pwd)"
id="$1"; prop="$2"; tier="${3:-quick}"; shift; shift; shift || true
wt=/tmp/seedwt/$id.$$
mkdir -p /tmp/seedwt
git -C /repo worktree add -q --detach "$wt" HEAD || exit 2
trap 'git -C /repo worktree remove --force "$wt" >/dev/null 2>&1; rm -rf "/tmp/seedverif/$(echo "$wt" | tr / _)"' EXIT
git -C "$wt" apply "$VERIF/seeded/$id/patch.diff" || { echo "PATCH DOES NOT APPLY"; exit 2; }
"$VERIF/seedrun.sh" "$wt" "$prop" "$tier" "$@" > "/tmp/seedwt/$id.$prop.out" 2>&1
rc=$?
grep -av "^KNOWN" "/tmp/seedwt/$id.$prop.out" | grep -aE "^$prop |^ +[0-9]+  |BUILD|HARNESS" | head -12 | cut -c1-200
exit $rc
