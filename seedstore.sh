#!/bin/bash
# seedstore.sh <ID> [label]: maintenance helper for section 12 of DESIGN.md (never used by a check).
# Verifies a seeded change produced in the scratch worktree /tmp/seed/<ID> and stores it under /verif/seeded/<label>/:
#   1. the existing suite passes with the change (demo test skipped), 2. the demo fails with it, 3. passes without it.
set -u
id="$1"; label="${2:-$1}"
wt=${SEEDROOT:-/tmp/seed}/$id
dst=/verif/seeded/$label
export GOFLAGS=-mod=mod GOPROXY=off
cd "$wt" || exit 2
demo=$(git status --porcelain | awk '/seed_demo_test.go/{print $2}' | head -1)
[ -n "$demo" ] || { echo "no demo"; exit 2; }
pkg="./$(dirname "$demo")/"
mkdir -p "$dst"

if ! diff -q <(git diff) patch.diff >/dev/null; then echo "note: patch.diff differs from working-tree diff; using working-tree diff of tracked files"; fi
git diff > "$dst/patch.diff"
cp "$demo" "$dst/$(echo "$demo" | tr '/' '_')"
[ -f SEED_NOTES.md ] && cp SEED_NOTES.md "$dst/"
echo "--- suite with change (demo skipped)"
go test -vet=off -count=1 -skip 'TestSeed' ./... 2>&1 | grep -v "^ok\|no test files" | head -5
suite=$?
echo "--- demo with change (expect FAIL)"
go test -vet=off -count=1 -run 'TestSeed' "$pkg" 2>&1 | tail -3
git apply -R "$dst/patch.diff" || exit 2
echo "--- demo without change (expect ok)"
go test -vet=off -count=1 -run 'TestSeed' "$pkg" 2>&1 | tail -3
git apply "$dst/patch.diff" || exit 2
echo "stored in $dst; demo=$demo pkg=$pkg"
