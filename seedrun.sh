#!/bin/bash
# seedrun.sh <mangle-tree> <PROP> [tier] [extra vcheck args]
# Runs one check against an alternative mangle-go tree (e.g. a scratch worktree holding a seeded change)
# without touching /repo: the harness is built with a temporary go.mod whose replace points at <mangle-tree>.
# Evidence/replays go to a scratch verif dir, not to /verif.
set -u
VERIF="$(cd "$(dirname "$0")" && pwd)"
tree="$1"; prop="$2"; tier="${3:-quick}"; shift; shift; shift || true
export GOFLAGS=-mod=mod GOPROXY=off GOTOOLCHAIN=auto; unset GOSUMDB
tag=$(echo "$tree" | tr '/' '_')
out="/tmp/seedverif/$tag"; mkdir -p "$out/evidence" "$out/replays" "$out/work"
cp "$VERIF/KNOWN_FINDINGS.json" "$out/"
mod="$out/go.mod"
sed "s#=> /repo#=> $tree#" "$VERIF/harness/go.mod" > "$mod"
cat "$tree/go.sum" "$VERIF/harness/go.sum.extra" | sort -u > "$out/go.sum"
race=""; bin="$out/vcheck"
if [ "$prop" = "C18" ]; then race="-race"; bin="$out/vcheck-race"; fi
(cd "$VERIF/harness" && go build -tags verif $race -modfile="$mod" -o "$bin" ./cmd/vcheck) || { echo BUILD FAILED; exit 2; }
"$bin" -verif "$out" -prop "$prop" -tier "$tier" -seed "${VERIF_SEED:-1}" "$@"
